#!/bin/bash
# tools/run_all.sh <seed> [tier] — run every registered check, print one line per check
seed=${1:-1}; tier=${2:-quick}
cd /verif
for id in $(python3 -c "import json;print(' '.join(c['property_id'] for c in json.load(open('MANIFEST.json'))['checks']))"); do
  VERIF_SEED=$seed ./check $id --tier $tier 2>&1 | grep -E "^(OK|VIOLATION|INCONCLUSIVE|BUILD|  sub-check)" | head -6 | cut -c1-400
done
