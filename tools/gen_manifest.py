#!/usr/bin/env python3
"""Regenerate MANIFEST.json from checks/*/check.json + checks/*/manifest.json fragments."""
import json,os,glob,subprocess
root='/verif'
props=[json.loads(l) for l in open(root+'/properties.jsonl')]
checks=[];na=[];engines=[]
na_reasons=json.load(open(root+'/tools/not_applicable.json')) if os.path.exists(root+'/tools/not_applicable.json') else {}
for p in props:
    pid=p['id']; d=root+'/checks/'+pid.lower()
    mf=d+'/manifest.json'
    if os.path.exists(mf) and os.path.exists(d+'/check.json'):
        m=json.load(open(mf)); c=json.load(open(d+'/check.json'))
        checks.append({"property_id":pid,
          "quick_cmd":"./check %s --tier quick"%pid,
          "thorough_cmd":"./check %s --tier thorough"%pid,
          "evidence_file":"/verif/evidence/%s.json"%pid,
          "replay_cmd_template":"./check %s --replay {path}"%pid,
          "engine":"vcheck",
          "level_claimed":{"category":c.get("level","exploration"),"text":m["level_text"],"design_ref":m.get("design_ref","DESIGN.md §3 "+pid)},
          "level_note":m["level_note"],
          "technique":m["technique"]})
    else:
        na.append({"property_id":pid,"reason":na_reasons.get(pid,"check not built yet (work in progress)")})
hooks=[l.split()[0] for l in subprocess.run(['git','-C','/repo','log','--format=%h %s','--grep=^hook:'],capture_output=True,text=True).stdout.splitlines()]
m={"version":1,"setup_cmd":"./setup.sh",
 "hooks":{"guard":"verif","enable":"checks build /repo with `go test -c -tags verif` through the replace directive in /verif/go.mod","baseline_off_cmd":"cd /repo && go test -vet=off -count=1 ./...","source_commits":hooks,"add_only":True},
 "engines":[{"name":"vcheck","path":"/verif/cmd/vcheck","serves_properties":[c["property_id"] for c in checks],"kind_free_text":"driver: rebuilds checks/<id> (Go test package: rapid properties, bounded-exhaustive enumerators, native fuzz targets) from /repo's working tree with -tags verif, runs it as shard processes, merges evidence, applies known_findings.json"}],
 "checks":checks,
 "notes":"All checks are property-based / generated-input searches against explicit oracles (reference models internal/refterm, internal/vtref; round trips; differential and metamorphic relations). Genuine defects found are listed in known_findings.json (status fixed = repaired by a fix: commit in /repo; status known = recorded, printed as KNOWN-FINDING).",
 "not_applicable":na}
json.dump(m,open(root+'/MANIFEST.json','w'),indent=1)
print("checks:",[c["property_id"] for c in checks]," not_applicable:",len(na))
