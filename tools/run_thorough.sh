#!/bin/bash
# tools/run_thorough.sh [ids...] — thorough tier, one check after the other; keeps a copy of each evidence file under evidence/thorough/
cd /verif; mkdir -p evidence/thorough
ids="$@"; [ -z "$ids" ] && ids=$(python3 -c "import json;print(' '.join(c['property_id'] for c in json.load(open('MANIFEST.json'))['checks']))")
for id in $ids; do
  t0=$(date +%s)
  ./check $id --tier thorough 2>&1 | grep -E "^(OK|VIOLATION|KNOWN|INCONCLUSIVE|BUILD|  sub-check)" | head -8 | cut -c1-500
  cp evidence/$id.json evidence/thorough/$id.json
  mkdir -p .work/thorough-violations/$id; cp -r .work/violations/$id/. .work/thorough-violations/$id/ 2>/dev/null
  echo "  ($id took $(( $(date +%s) - t0 )) s)"
done
