#!/bin/bash
# tools/stress_quick.sh [seed] — the whole quick tier while 16 busy loops compete for the cores
seed=${1:-1}
pids=""
for i in $(seq ${HOGS:-16}); do ( while :; do :; done ) & pids="$pids $!"; done
trap "kill $pids 2>/dev/null" EXIT
/verif/tools/run_all.sh $seed quick
