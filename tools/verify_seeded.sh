#!/bin/bash
# tools/verify_seeded.sh <dir under /verif/seeded>  — confirm a seeded change on a scratch worktree of /repo HEAD:
# patch applies, builds, existing suite passes with it, demo fails with it and passes without it.
id=$1; d=/verif/seeded/$id; wt=/tmp/wtv/$id
export GOFLAGS=-mod=mod GOPROXY=off GOSUMDB=off GOTOOLCHAIN=local
unset COLORTERM
rm -rf $wt; git -C /repo worktree prune; git -C /repo worktree add -q --detach $wt HEAD || exit 2
patch=$d/patch.diff; [ -f $d/patch.rebased.diff ] && patch=$d/patch.rebased.diff
res="id=$id"
cd $wt
# place demos: README names the location; default: guess by package clause
place_demos() {
  for f in $d/*_test.go; do
    [ -f "$f" ] || continue
    pkg=$(grep -m1 '^package ' $f | awk '{print $2}')
    case $pkg in vaxis_test) ;; *_test) pkg=${pkg%_test};; esac
    dest=""
    # look for an explicit path in README
    base=$(basename $f)
    hint=$(grep -oE "[a-zA-Z0-9_/]*$base" $d/README.md | grep / | head -1)
    if [ -n "$hint" ]; then dest=$wt/$(dirname ${hint#/tmp/wt/*/}); fi
    if [ -z "$dest" ] || [ ! -d "$dest" ]; then
      case $pkg in
        vaxis|vaxis_test) dest=$wt;;
        ansi) dest=$wt/ansi;;
        term) dest=$wt/widgets/term;;
        vxfw) dest=$wt/vxfw;;
        text) dest=$wt/vxfw/text;;
        richtext) dest=$wt/vxfw/richtext;;
        textfield) dest=$wt/vxfw/textfield;;
        list) if grep -q "vxfw" $f; then dest=$wt/vxfw/list; else dest=$wt/widgets/list; fi;;
        textinput) dest=$wt/widgets/textinput;;
        pager) dest=$wt/widgets/pager;;
        spinner) dest=$wt/widgets/spinner;;
        *) dest=$wt;;
      esac
    fi
    cp $f $dest/zz_seeded_$base
    echo "$dest" 
  done | sort -u
}
pkgs=$(place_demos)
tags=""; grep -lq '^//go:build verif' $d/*_test.go 2>/dev/null && tags="-tags verif"
run_demo() { rc=0; for p in $pkgs; do (cd $p && timeout 300 go test $tags -vet=off -count=1 -run . . >/tmp/wtv/$id.demo.$1.log 2>&1) || rc=1; done; return $rc; }
if run_demo clean; then res="$res demo_clean=PASS"; else res="$res demo_clean=FAIL"; fi
find $wt -name 'zz_seeded_*' -delete
if git apply $patch 2>/tmp/wtv/$id.apply.log || { git apply --3way $patch 2>>/tmp/wtv/$id.apply.log && git reset -q; }; then res="$res apply=OK"; else res="$res apply=FAIL"; echo "$res"; cd /; git -C /repo worktree remove --force $wt; exit 1; fi
if go build ./... 2>/tmp/wtv/$id.build.log; then res="$res build=OK"; else res="$res build=FAIL"; fi
if timeout 600 go test -vet=off -count=1 ./... >/tmp/wtv/$id.suite.log 2>&1; then res="$res suite=PASS"; else res="$res suite=FAIL"; fi
pkgs=$(place_demos)
if run_demo patched; then res="$res demo_patched=PASS"; else res="$res demo_patched=FAIL"; fi
echo "$res"
cd /; git -C /repo worktree remove --force $wt; rm -rf $wt
