#!/usr/bin/env python3
"""tools/gen_meta.py — write seeded/<id>/meta.json and the DESIGN.md table from
the READMEs, seeded/verify-results.txt (demo on a scratch worktree) and
seeded/check-results.txt (the check against the change applied to /repo)."""
import json, os, re, sys
root = '/verif'
demo = {}
for l in open(root + '/seeded/verify-results.txt'):
    m = re.match(r'id=(\S+) (.*)', l.strip())
    if m:
        demo[m.group(1)] = dict(kv.split('=') for kv in m.group(2).split())
res = {}
for l in open(root + '/seeded/check-results.txt'):
    m = re.match(r'(\S+) patch=(\S+) (\S+)\s*(.*)', l.strip())
    if m:
        res[m.group(1)] = (m.group(2), m.group(3), m.group(4))
notes = json.load(open(root + '/seeded/notes.json'))
rows = []
for sid in sorted(os.listdir(root + '/seeded')):
    d = root + '/seeded/' + sid
    if not os.path.isdir(d) or not sid.startswith('C'):
        continue
    readme = open(d + '/README.md').read()
    title = readme.splitlines()[0].lstrip('# ').strip()
    sec = re.split(r'^## ', readme, flags=re.M)
    needs = ''
    for s in sec:
        if s.lower().startswith('what it needs'):
            needs = ' '.join(s.split('\n', 1)[1].split())
    prop = sid.split('-')[0]
    patch, rc, first = res.get(sid, ('', '', ''))
    dm = demo.get(sid, {})
    caught = rc == 'exit=1'
    note = notes.get(sid, '')
    meta = {
        'id': sid,
        'property': prop,
        'title': title,
        'needs_to_manifest': needs,
        'files': sorted(os.listdir(d)),
        'patch_used': patch,
        'origin': 'written by a fresh sub-agent from the property text and a scratch worktree under /tmp; nothing from /verif was visible to it',
        'confirmed_on_scratch_worktree': {
            'command': 'tools/verify_seeded.sh ' + sid + '  (worktree of /repo HEAD under /tmp: demo without the change, git apply, go build ./..., go test -vet=off -count=1 ./..., demo with the change; worktree removed)',
            'result': dm,
        },
        'check_run': {
            'command': 'tools/try_patch.sh /verif/seeded/%s/%s %s quick  (git -C /repo apply; ./check %s --tier quick; git -C /repo checkout -- .)' % (sid, patch, prop, prop),
            'exit': rc,
            'first_violation': first,
            'caught': caught,
        },
        'note': note,
    }
    json.dump(meta, open(d + '/meta.json', 'w'), indent=1, ensure_ascii=False)
    rows.append('| %s | %s | %s | %s | %s |' % (sid, title.split(': ', 1)[-1].replace('|', '\\|'), patch, '**caught** by ' + prop if caught else 'not caught', note.replace('|', '\\|')))
open(root + '/.work/mutants_table.md', 'w').write('| change | what it does | patch | quick check of its property | note |\n|---|---|---|---|---|\n' + '\n'.join(rows) + '\n')
print(len(rows), 'meta files;', sum(1 for r in rows if '**caught**' in r), 'caught')
