#!/bin/bash
# tools/run_mutants.sh [ids...] — apply each seeded change to /repo, run its property's quick check, revert; one line per change
cd /verif
ids="$@"; [ -z "$ids" ] && ids=$(ls seeded | grep '^C')
for id in $ids; do
  d=seeded/$id; prop=${id%-*}
  patch=$d/patch.diff; [ -f $d/patch.rebased.diff ] && patch=$d/patch.rebased.diff
  out=$(tools/try_patch.sh /verif/$patch $prop 2>&1)
  rc=$(echo "$out" | grep -o "^exit=[0-9]*" | head -1)
  first=$(echo "$out" | grep "sub-check" | head -1 | cut -c1-220)
  [ -z "$rc" ] && rc=$(echo "$out" | head -1)
  echo "$id patch=$(basename $patch) $rc $first"
done
