#!/bin/bash
# tools/verify_fixed.sh — for every fixed finding: take its fix: commit out of /repo's working tree
# (reverse-apply its diff), replay the stored case, expect a VIOLATION; restore. Findings whose commit
# cannot be reverse-applied on top of later fixes are reported as "skipped".
cd /verif
[ -n "$(git -C /repo status --porcelain)" ] && { echo "/repo not clean"; exit 2; }
python3 - <<'PY' > /tmp/fixed.txt
import json
for f in json.load(open('/verif/known_findings.json'))['findings']:
    if f['status']=='fixed' and f.get('replay'):
        print(f['id'], f['property'], f['commit'], f['replay'])
PY
while read id prop commit replay; do
  if git -C /repo diff $commit^ $commit | git -C /repo apply -R 2>/dev/null; then
    chk=$(echo $replay | cut -d/ -f2); out=$(./check $chk --replay $replay 2>&1 | grep -E "^(VIOLATION|OK|BUILD|INCONCLUSIVE)" | head -1 | cut -c1-60)
    git -C /repo checkout -- . ; git -C /repo clean -fdq
    echo "$id $commit ${out:-no-output}"
  else
    echo "$id $commit skipped (does not reverse-apply on top of later fixes)"
  fi
done < /tmp/fixed.txt
