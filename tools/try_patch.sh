#!/bin/bash
# tools/try_patch.sh <patch.diff> <ID> [tier]  — apply a seeded change to /repo, run the check, revert.
p=$1; id=$2; tier=${3:-quick}
cd /repo || exit 2
if [ -n "$(git status --porcelain)" ]; then echo "/repo not clean"; exit 2; fi
if ! git apply --3way "$p" 2>/tmp/apply.err && ! git apply "$p" 2>>/tmp/apply.err; then echo "PATCH DOES NOT APPLY"; cat /tmp/apply.err; git reset -q --hard HEAD; exit 3; fi
git reset -q
cp /verif/evidence/$id.json /tmp/evidence_$id.bak 2>/dev/null
cd /verif && timeout 3000 ./check "$id" --tier "$tier" > /tmp/try_$id.out 2>&1; rc=$?
[ -f /tmp/evidence_$id.bak ] && mv /tmp/evidence_$id.bak /verif/evidence/$id.json
cd /repo && git checkout -- . && git clean -fdq
echo "exit=$rc"; grep -E "^(VIOLATION|KNOWN|OK|INCONCLUSIVE|BUILD)" /tmp/try_$id.out | head -8; grep -A1 "^VIOLATION" /tmp/try_$id.out | grep "sub-check" | head -3 | cut -c1-400
