// Package widthtab is the hand-written glyph width table of the oracle side
// (DESIGN.md Appendix E).  Nothing here calls the library under test or its
// width dependencies.
package widthtab

import "sort"

type Method int

const (
	Wcwidth Method = iota // per-codepoint wcwidth (legacy terminals)
	NoZWJ                 // grapheme widths, but ZWJ does not join (kitty quirk)
	Unicode               // grapheme-cluster widths (mode 2027 / OSC 66)
)

func (m Method) String() string { return [...]string{"wcwidth", "noZWJ", "unicode"}[m] }

// Entry: widths under {wcwidth, noZWJ, unicode}; rows marked † come from the
// expectations in the repository's gwidth_test.go.
type Entry struct {
	G     string
	W     [3]int
	Class string
}

var Table = []Entry{
	{"a", [3]int{1, 1, 1}, "narrow-ascii"},
	{"b", [3]int{1, 1, 1}, "narrow-ascii"},
	{"Z", [3]int{1, 1, 1}, "narrow-ascii"},
	{"~", [3]int{1, 1, 1}, "narrow-ascii"},
	{"0", [3]int{1, 1, 1}, "narrow-ascii"},
	{"-", [3]int{1, 1, 1}, "narrow-ascii"},
	{" ", [3]int{1, 1, 1}, "space"},
	{"é", [3]int{1, 1, 1}, "narrow"},
	{"ф", [3]int{1, 1, 1}, "narrow"},
	{"ω", [3]int{1, 1, 1}, "narrow"},
	{"…", [3]int{1, 1, 1}, "narrow"},
	{"é", [3]int{1, 1, 1}, "combining"},
	{"́", [3]int{0, 0, 0}, "zero"},
	{"‍", [3]int{0, 0, 0}, "zero"},
	{"宽", [3]int{2, 2, 2}, "wide"},
	{"世", [3]int{2, 2, 2}, "wide"},
	{"한", [3]int{2, 2, 2}, "wide"},
	{"（", [3]int{2, 2, 2}, "wide"},
	{"Ａ", [3]int{2, 2, 2}, "wide"},
	{"😀", [3]int{2, 2, 2}, "emoji"},
	{"🔥", [3]int{2, 2, 2}, "emoji"},
	{"👩‍🚀", [3]int{4, 4, 2}, "zwj"},     // †
	{"❤️", [3]int{1, 2, 2}, "vs16"},     // †
	{"👋🏿", [3]int{4, 2, 2}, "modifier"}, // †
	{"🇺🇸", [3]int{2, 2, 2}, "flag"},
}

var byG = map[string]Entry{}
var keys []string

func init() {
	for _, e := range Table {
		byG[e.G] = e
		keys = append(keys, e.G)
	}
	sort.Slice(keys, func(i, j int) bool { return len(keys[i]) > len(keys[j]) })
}

func Lookup(g string) (Entry, bool) { e, ok := byG[g]; return e, ok }

// Width of a table grapheme under a method; ok=false when not in the table.
func Width(g string, m Method) (int, bool) {
	e, ok := byG[g]
	if !ok {
		return 0, false
	}
	return e.W[m], true
}

// Keys returns the graphemes, longest first (for longest-match tokenising).
func Keys() []string { return keys }

// ByClass lists graphemes of the given classes.
func ByClass(classes ...string) []string {
	var out []string
	for _, e := range Table {
		for _, c := range classes {
			if e.Class == c {
				out = append(out, e.G)
			}
		}
	}
	return out
}

// CodepointWidth is the oracle's own per-codepoint wcwidth for everything a
// terminal may receive (table graphemes decompose to these).
func CodepointWidth(r rune) int {
	switch {
	case r == 0:
		return 0
	case r < 0x20 || (r >= 0x7f && r < 0xa0):
		return 0
	case r >= 0x0300 && r <= 0x036f, r == 0x200d, r == 0x200b, r == 0x200c,
		r >= 0xfe00 && r <= 0xfe0f, r >= 0xe0100 && r <= 0xe01ef, r == 0x20e3,
		r >= 0x1ab0 && r <= 0x1aff, r >= 0x20d0 && r <= 0x20ff:
		return 0
	case r >= 0x1100 && r <= 0x115f,
		r >= 0x231a && r <= 0x231b,
		r >= 0x2e80 && r <= 0x303e,
		r >= 0x3041 && r <= 0x33ff,
		r >= 0x3400 && r <= 0x4dbf,
		r >= 0x4e00 && r <= 0x9fff,
		r >= 0xa000 && r <= 0xa4cf,
		r >= 0xac00 && r <= 0xd7a3,
		r >= 0xf900 && r <= 0xfaff,
		r >= 0xfe30 && r <= 0xfe6f,
		r >= 0xff00 && r <= 0xff60,
		r >= 0xffe0 && r <= 0xffe6,
		r >= 0x1f300 && r <= 0x1f64f,
		r >= 0x1f680 && r <= 0x1f6ff,
		r >= 0x1f900 && r <= 0x1f9ff,
		r >= 0x20000 && r <= 0x3fffd:
		return 2
	}
	return 1
}
