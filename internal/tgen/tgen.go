// Package tgen generates child-program output for the embedded terminal
// emulator: every sequence it handles, with boundary parameters.
package tgen

import (
	"fmt"
	"strconv"
	"strings"

	"pgregory.net/rapid"
)

// Param draws a numeric parameter around the boundaries of a dimension.
func Param(rt *rapid.T, label string, size int) string {
	switch rapid.IntRange(0, 13).Draw(rt, label+"-kind") {
	case 0, 1:
		return ""
	case 2:
		return "0"
	case 3, 4:
		return "1"
	case 5:
		return "2"
	case 6:
		return strconv.Itoa(max(size-1, 0))
	case 7:
		return strconv.Itoa(size)
	case 8:
		return strconv.Itoa(size + 1)
	case 9:
		return strconv.Itoa(rapid.IntRange(0, size+2).Draw(rt, label))
	case 10:
		return "65535"
	case 11:
		return "2147483648"
	case 12:
		return "1000000000000000000"
	default:
		return strconv.Itoa(rapid.IntRange(0, 300).Draw(rt, label+"-r"))
	}
}

func max(a, b int) int {
	if a > b {
		return a
	}
	return b
}

var printables = []string{"a", "b", "Z", " ", "~", "é", "宽", "世", "😀", "e\u0301", "́", "👩‍🚀", "❤️", "🇺🇸", "q", "x", "\x7f"}

var csiOneParam = []string{"@", "A", "B", "C", "D", "E", "F", "G", "I", "J", "K", "L", "M", "P", "S", "T", "X", "Z", "`", "a", "b", "d", "e", "g", "n", " q"}

var decModes = []int{1, 2, 3, 4, 5, 6, 7, 8, 25, 1000, 1002, 1003, 1006, 1007, 1049, 2004, 47, 1047, 9999}
var ansiModes = []int{2, 4, 12, 20, 99}

var escFinals = []string{"7", "8", "D", "E", "H", "M", "N", "O", "=", ">", "c", "(0", ")0", "*0", "+0", "(B", ")B", "*B", "+B", "#8", "\\", "Z"}

var sgrParams = []string{"", "0", "1", "2", "3", "4", "4:0", "4:1", "4:3", "4:5", "4:9", "5", "7", "8", "9", "21", "22", "23", "24", "25", "27", "28", "29", "30", "37", "38;5;1", "38;5", "38", "38;2;1;2;3", "38;2;1;2", "38;2", "38:5:200", "38:2:1:2:3", "38:2::1:2:3", "38:2", "38:5", "38:9:1", "38;9;1", "39", "40", "47", "48;5;2", "48;2;9;9;9", "48:2:1:2:3", "48:5:7", "48;5", "49", "58:5:3", "58:2:1:2:3", "58;5;3", "58;2;1;2;3", "58;2;1", "58", "59", "90", "97", "100", "107", "300", "65536", "1;38;5", "1;4;38;2;10", "0;48;2;1"}

// Seq draws one unit of child output for a terminal of the given size.
func Seq(rt *rapid.T, cols, rows int) string {
	switch rapid.IntRange(0, 21).Draw(rt, "seq") {
	case 0, 1, 2, 3:
		n := rapid.IntRange(1, 2*cols+2).Draw(rt, "nprint")
		if rapid.IntRange(0, 2).Draw(rt, "short") != 0 {
			n = rapid.IntRange(1, 4).Draw(rt, "nprint-s")
		}
		var sb strings.Builder
		for i := 0; i < n; i++ {
			sb.WriteString(rapid.SampledFrom(printables).Draw(rt, "pr"))
		}
		return sb.String()
	case 4:
		return string(rune(rapid.SampledFrom([]int{0x07, 0x08, 0x09, 0x0a, 0x0b, 0x0c, 0x0d, 0x0e, 0x0f, 0x00, 0x05}).Draw(rt, "c0")))
	case 5:
		return "\x1b" + rapid.SampledFrom(escFinals).Draw(rt, "esc")
	case 6, 7, 8, 9, 10:
		f := rapid.SampledFrom(csiOneParam).Draw(rt, "csi1")
		size := cols
		switch f {
		case "A", "B", "E", "F", "L", "M", "S", "T", "d", "e":
			size = rows
		}
		p := Param(rt, "p", size)
		if rapid.IntRange(0, 9).Draw(rt, "extra") == 0 {
			p += ";" + Param(rt, "p2", size)
		}
		return "\x1b[" + p + f
	case 11, 12:
		f := rapid.SampledFrom([]string{"H", "f", "r"}).Draw(rt, "csi2")
		switch rapid.IntRange(0, 4).Draw(rt, "n2") {
		case 0:
			return "\x1b[" + f
		case 1:
			return "\x1b[" + Param(rt, "row", rows) + f
		default:
			return "\x1b[" + Param(rt, "row", rows) + ";" + Param(rt, "col", cols) + f
		}
	case 13:
		m := rapid.SampledFrom(decModes).Draw(rt, "decmode")
		hl := rapid.SampledFrom([]string{"h", "l"}).Draw(rt, "hl")
		if rapid.IntRange(0, 6).Draw(rt, "multi") == 0 {
			return fmt.Sprintf("\x1b[?%d;%d%s", m, rapid.SampledFrom(decModes).Draw(rt, "decmode2"), hl)
		}
		return fmt.Sprintf("\x1b[?%d%s", m, hl)
	case 14:
		return fmt.Sprintf("\x1b[%d%s", rapid.SampledFrom(ansiModes).Draw(rt, "ansimode"), rapid.SampledFrom([]string{"h", "l"}).Draw(rt, "hl"))
	case 15, 16:
		n := rapid.IntRange(1, 3).Draw(rt, "nsgr")
		var ps []string
		for i := 0; i < n; i++ {
			ps = append(ps, rapid.SampledFrom(sgrParams).Draw(rt, "sgr"))
		}
		return "\x1b[" + strings.Join(ps, ";") + "m"
	case 17:
		return rapid.SampledFrom([]string{"\x1b[c", "\x1b[>c", "\x1b[5n", "\x1b[6n", "\x1b[?1$p", "\x1b[?1049$p", "\x1b[?9$p", "\x1b[$p", "\x1b[s", "\x1b[u", "\x1b[1;2;3;4;5T", "\x1b[?u", "\x1b[>1u", "\x1b[14t", "\x1b[!p"}).Draw(rt, "report")
	case 18:
		return rapid.SampledFrom([]string{"\x1b]0;title\x07", "\x1b]2;t\x1b\\", "\x1b]0\x07", "\x1b]8;id=1;https://x.example\x1b\\", "\x1b]8;;\x1b\\", "\x1b]8\x07", "\x1b]8;x\x07",
			"\x1b]9;notify\x07", "\x1b]777;notify;t;b\x07", "\x1b]777;notify;t\x07", "\x1b]777;x\x07", "\x1b]777\x07",
			"\x1b]11;?\x07", "\x1b]11;#fff\x07", "\x1b]52;c;aGk=\x07", "\x1b]52;c;!!\x07", "\x1b]52;c\x07", "\x1b]52\x07", "\x1b]4;1;?\x07", "\x1b]\x07", "\x1b];\x07"}).Draw(rt, "osc")
	case 19:
		return rapid.SampledFrom([]string{"\x1b_Gi=1,a=q\x1b\\", "\x1b_x\x1b\\", "\x1b_\x1b\\", "\x1bPq#0;2;0;0;0#0~~@@vv@@~~@@~~$\x1b\\", "\x1bP0;0;8q\"1;1;4;4#0~~\x1b\\", "\x1bPq\x1b\\", "\x1bPqgarbage\x1b\\", "\x1bP$q q\x1b\\", "\x1bP+q524742\x1b\\", "\x1bP1;2|x\x1b\\",
			"\x1bPq!99999999999999~\x1b\\", "\x1bPq\"1;1;999999999;999999999#0~\x1b\\", "\x1bPq!16384~-!16385~\x1b\\", "\x1bPq! 20000000000000000p\x1b\\", "\x1bPq#99999999999;2;0;0;0#0~\x1b\\"}).Draw(rt, "str")
	case 20:
		// bursts of event-raising sequences
		n := rapid.IntRange(2, 8).Draw(rt, "burst")
		var sb strings.Builder
		for i := 0; i < n; i++ {
			sb.WriteString(rapid.SampledFrom([]string{"\x07", "\x1b]0;t\x07", "\x1b]9;n\x07", "\x1b_a\x1b\\", "\x1b]777;notify;a;b\x07"}).Draw(rt, "ev"))
		}
		return sb.String()
	default:
		// full-width line then something at the edge
		return strings.Repeat("x", cols) + rapid.SampledFrom([]string{"\x1b[1K", "\x1b[1J", "\x1b[K", "\x1b[X", "\x1b[P", "\x1b[@", "\x1b[b", "\x1b[2b", "\t", "\x08", "\x1b[6n", "宽", "\x1b7\x1b8", "\x1b[D", "\x1b[C"}).Draw(rt, "edge")
	}
}

// Output draws a run of child output.
func Output(rt *rapid.T, cols, rows, maxSeqs int) string {
	n := rapid.IntRange(1, maxSeqs).Draw(rt, "nseqs")
	var sb strings.Builder
	for i := 0; i < n; i++ {
		sb.WriteString(Seq(rt, cols, rows))
	}
	return sb.String()
}
