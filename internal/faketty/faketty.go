// Package faketty implements console.Console over in-memory pipes bound to a
// refterm.  DESIGN.md §2.3.
package faketty

import (
	"errors"
	"io"
	"os"
	"sync"
	"time"

	"github.com/containerd/console"

	"verif/internal/refterm"
)

// Sink is what receives the bytes the application writes.
type Sink interface {
	Write([]byte) (int, error)
}

type TTY struct {
	mu     sync.Mutex
	cond   *sync.Cond
	in     []byte // pending input for the application
	closed bool
	eof    bool
	rdErr  error

	Sink Sink
	Term *refterm.Term // may be nil when Sink is something else

	cols, rows int
	fd         uintptr
	ptyMaster  *os.File
	ptySlave   *os.File

	// Out is a copy of everything written (when Capture is true).
	Capture bool
	Out     []byte
	// Tap, when non-nil, sees every write before the sink does.
	Tap func([]byte)

	// SyncReplies: Write returns only once the application has read every
	// pending input byte (bounded wait) and had a moment to handle it: a
	// terminal that answers a query before the write call is back
	SyncReplies bool

	SetRawCalls, ResetCalls, CloseCalls int
	Reads                               int
}

// New creates a console bound to a fresh refterm of the given size.
func New(cols, rows int, caps refterm.Caps) *TTY {
	t := &TTY{cols: cols, rows: rows, fd: ^uintptr(0)}
	t.cond = sync.NewCond(&t.mu)
	term := refterm.New(cols, rows, caps)
	term.Reply = t.Inject
	t.Term = term
	t.Sink = term
	return t
}

// NewWithSink creates a console whose output goes to an arbitrary sink.
func NewWithSink(cols, rows int, sink Sink) *TTY {
	t := &TTY{cols: cols, rows: rows, fd: ^uintptr(0), Sink: sink}
	t.cond = sync.NewCond(&t.mu)
	return t
}

// Inject queues input bytes (user input or terminal replies).
func (t *TTY) Inject(b []byte) {
	t.mu.Lock()
	t.in = append(t.in, b...)
	t.cond.Broadcast()
	t.mu.Unlock()
}

// SetSyncReplies switches SyncReplies under the lock.
func (t *TTY) SetSyncReplies(on bool) { t.mu.Lock(); t.SyncReplies = on; t.mu.Unlock() }

func (t *TTY) InjectString(s string) { t.Inject([]byte(s)) }

// Pending reports how many injected bytes have not been read yet.
func (t *TTY) Pending() int {
	t.mu.Lock()
	defer t.mu.Unlock()
	return len(t.in)
}

// EndInput makes Read return io.EOF once the queue is drained.
func (t *TTY) EndInput() {
	t.mu.Lock()
	t.eof = true
	t.cond.Broadcast()
	t.mu.Unlock()
}

// FailReads makes Read return err once the queue is drained.
func (t *TTY) FailReads(err error) {
	t.mu.Lock()
	t.rdErr = err
	t.cond.Broadcast()
	t.mu.Unlock()
}

func (t *TTY) Read(p []byte) (int, error) {
	t.mu.Lock()
	defer t.mu.Unlock()
	t.Reads++
	for len(t.in) == 0 {
		if t.rdErr != nil {
			return 0, t.rdErr
		}
		if t.eof || t.closed {
			return 0, io.EOF
		}
		t.cond.Wait()
	}
	n := copy(p, t.in)
	t.in = t.in[n:]
	return n, nil
}

func (t *TTY) Write(p []byte) (int, error) {
	t.mu.Lock()
	if t.Capture {
		t.Out = append(t.Out, p...)
	}
	tap := t.Tap
	sink := t.Sink
	sync := t.SyncReplies
	t.mu.Unlock()
	if tap != nil {
		tap(p)
	}
	n, err := len(p), error(nil)
	if sink != nil {
		n, err = sink.Write(p)
	}
	if sync {
		for i := 0; i < 200 && t.Pending() > 0; i++ {
			time.Sleep(100 * time.Microsecond)
		}
		time.Sleep(500 * time.Microsecond)
	}
	return n, err
}

// TakeOut returns and clears the captured output.
func (t *TTY) TakeOut() []byte {
	t.mu.Lock()
	defer t.mu.Unlock()
	o := t.Out
	t.Out = nil
	return o
}

func (t *TTY) Close() error {
	t.mu.Lock()
	t.CloseCalls++
	t.closed = true
	t.cond.Broadcast()
	t.mu.Unlock()
	return nil
}

// Closes reports how many times Close was called.
func (t *TTY) Closes() int {
	t.mu.Lock()
	defer t.mu.Unlock()
	return t.CloseCalls
}

// Reopen clears the closed flag (the same console object is reused by
// Resume in the WithConsole configuration).
func (t *TTY) Reopen() {
	t.mu.Lock()
	t.closed = false
	t.mu.Unlock()
}

func (t *TTY) Fd() uintptr  { return t.fd }
func (t *TTY) Name() string { return "faketty" }

func (t *TTY) Resize(ws console.WinSize) error {
	t.SetSize(int(ws.Width), int(ws.Height))
	return nil
}
func (t *TTY) ResizeFrom(console.Console) error { return errors.New("faketty: not supported") }
func (t *TTY) SetRaw() error {
	t.mu.Lock()
	t.SetRawCalls++
	t.mu.Unlock()
	return nil
}
func (t *TTY) DisableEcho() error { return nil }
func (t *TTY) Reset() error {
	t.mu.Lock()
	t.ResetCalls++
	t.mu.Unlock()
	return nil
}

func (t *TTY) Size() (console.WinSize, error) {
	t.mu.Lock()
	defer t.mu.Unlock()
	return console.WinSize{Width: uint16(t.cols), Height: uint16(t.rows)}, nil
}

// SetSize changes the geometry reported by Size (and the refterm's).
func (t *TTY) SetSize(cols, rows int) {
	t.mu.Lock()
	t.cols, t.rows = cols, rows
	term := t.Term
	t.mu.Unlock()
	if term != nil {
		term.Resize(cols, rows)
	}
}
