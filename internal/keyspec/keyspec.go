// Package keyspec holds the oracle side of key handling: encoders written
// from the protocol documents (xterm ctlseqs "PC-Style Function Keys", the
// kitty keyboard protocol) and the decode expectation of DESIGN.md Appendix F.
// It uses only the library's *exported* key constants as names.
package keyspec

import (
	"fmt"
	"strings"
	"unicode"

	vaxis "git.sr.ht/~rockorager/vaxis"
)

// Special is one functional key and the encodings that denote it.
type Special struct {
	Name   string
	Key    rune
	Letter byte // CSI 1 ; m <Letter>  (0 = none)
	SS3    byte // ESC O <SS3>        (0 = none)
	Tilde  []int
	Kitty  int // CSI <Kitty> ; m u   (0 = none)
}

// Specials: xterm/VT220 finals and numbers, kitty functional key numbers.
var Specials = []Special{
	{Name: "Up", Key: vaxis.KeyUp, Letter: 'A', SS3: 'A'},
	{Name: "Down", Key: vaxis.KeyDown, Letter: 'B', SS3: 'B'},
	{Name: "Right", Key: vaxis.KeyRight, Letter: 'C', SS3: 'C'},
	{Name: "Left", Key: vaxis.KeyLeft, Letter: 'D', SS3: 'D'},
	{Name: "Home", Key: vaxis.KeyHome, Letter: 'H', SS3: 'H', Tilde: []int{1, 7}},
	{Name: "End", Key: vaxis.KeyEnd, Letter: 'F', SS3: 'F', Tilde: []int{4, 8}},
	{Name: "Insert", Key: vaxis.KeyInsert, Tilde: []int{2}},
	{Name: "Delete", Key: vaxis.KeyDelete, Tilde: []int{3}},
	{Name: "Page_Up", Key: vaxis.KeyPgUp, Tilde: []int{5}},
	{Name: "Page_Down", Key: vaxis.KeyPgDown, Tilde: []int{6}},
	{Name: "F1", Key: vaxis.KeyF01, Letter: 'P', SS3: 'P', Tilde: []int{11}},
	{Name: "F2", Key: vaxis.KeyF02, Letter: 'Q', SS3: 'Q', Tilde: []int{12}},
	{Name: "F3", Key: vaxis.KeyF03, Letter: 'R', SS3: 'R', Tilde: []int{13}},
	{Name: "F4", Key: vaxis.KeyF04, Letter: 'S', SS3: 'S', Tilde: []int{14}},
	{Name: "F5", Key: vaxis.KeyF05, Tilde: []int{15}},
	{Name: "F6", Key: vaxis.KeyF06, Tilde: []int{17}},
	{Name: "F7", Key: vaxis.KeyF07, Tilde: []int{18}},
	{Name: "F8", Key: vaxis.KeyF08, Tilde: []int{19}},
	{Name: "F9", Key: vaxis.KeyF09, Tilde: []int{20}},
	{Name: "F10", Key: vaxis.KeyF10, Tilde: []int{21}},
	{Name: "F11", Key: vaxis.KeyF11, Tilde: []int{23}},
	{Name: "F12", Key: vaxis.KeyF12, Tilde: []int{24}},
	{Name: "F13", Key: vaxis.KeyF13, Tilde: []int{25}, Kitty: 57376},
	{Name: "F14", Key: vaxis.KeyF14, Tilde: []int{26}, Kitty: 57377},
	{Name: "F15", Key: vaxis.KeyF15, Tilde: []int{28}, Kitty: 57378},
	{Name: "F16", Key: vaxis.KeyF16, Tilde: []int{29}, Kitty: 57379},
	{Name: "F17", Key: vaxis.KeyF17, Tilde: []int{31}, Kitty: 57380},
	{Name: "F18", Key: vaxis.KeyF18, Tilde: []int{32}, Kitty: 57381},
	{Name: "F19", Key: vaxis.KeyF19, Tilde: []int{33}, Kitty: 57382},
	{Name: "F20", Key: vaxis.KeyF20, Tilde: []int{34}, Kitty: 57383},
	{Name: "F21", Key: vaxis.KeyF21, Kitty: 57384},
	{Name: "F22", Key: vaxis.KeyF22, Kitty: 57385},
	{Name: "F23", Key: vaxis.KeyF23, Kitty: 57386},
	{Name: "F24", Key: vaxis.KeyF24, Kitty: 57387},
	{Name: "F25", Key: vaxis.KeyF25, Kitty: 57388},
	{Name: "F35", Key: vaxis.KeyF35, Kitty: 57398},
	{Name: "Caps_Lock", Key: vaxis.KeyCapsLock, Kitty: 57358},
	{Name: "Scroll_Lock", Key: vaxis.KeyScrollLock, Kitty: 57359},
	{Name: "Num_Lock", Key: vaxis.KeyNumlock, Kitty: 57360},
	{Name: "Pause", Key: vaxis.KeyPause, Kitty: 57362},
	{Name: "Menu", Key: vaxis.KeyMenu, Kitty: 57363},
	{Name: "KP_0", Key: vaxis.KeyKeyPad0, Kitty: 57399},
	{Name: "KP_9", Key: vaxis.KeyKeyPad9, Kitty: 57408},
	{Name: "KP_Decimal", Key: vaxis.KeyKeyPadDecimal, Kitty: 57409},
	{Name: "KP_Divide", Key: vaxis.KeyKeyPadDivide, Kitty: 57410},
	{Name: "KP_Multiply", Key: vaxis.KeyKeyPadMultiply, Kitty: 57411},
	{Name: "KP_Subtract", Key: vaxis.KeyKeyPadSubtract, Kitty: 57412},
	{Name: "KP_Add", Key: vaxis.KeyKeyPadAdd, Kitty: 57413},
	{Name: "KP_Enter", Key: vaxis.KeyKeyPadEnter, Kitty: 57414},
	{Name: "KP_Equal", Key: vaxis.KeyKeyPadEqual, Kitty: 57415},
	{Name: "KP_Separator", Key: vaxis.KeyKeyPadSeparator, Kitty: 57416},
	{Name: "KP_Left", Key: vaxis.KeyKeyPadLeft, Kitty: 57417},
	{Name: "KP_Right", Key: vaxis.KeyKeyPadRight, Kitty: 57418},
	{Name: "KP_Up", Key: vaxis.KeyKeyPadUp, Kitty: 57419},
	{Name: "KP_Down", Key: vaxis.KeyKeyPadDown, Kitty: 57420},
	{Name: "KP_Page_Up", Key: vaxis.KeyKeyPadPageUp, Kitty: 57421},
	{Name: "KP_Page_Down", Key: vaxis.KeyKeyPadPageDown, Kitty: 57422},
	{Name: "KP_Home", Key: vaxis.KeyKeyPadHome, Kitty: 57423},
	{Name: "KP_End", Key: vaxis.KeyKeyPadEnd, Kitty: 57424},
	{Name: "KP_Insert", Key: vaxis.KeyKeyPadInsert, Kitty: 57425},
	{Name: "KP_Delete", Key: vaxis.KeyKeyPadDelete, Kitty: 57426},
	{Name: "KP_Begin", Key: vaxis.KeyKeyPadBegin, Letter: 'E'},
	{Name: "Media_Play", Key: vaxis.KeyMediaPlay, Kitty: 57428},
	{Name: "Media_Pause", Key: vaxis.KeyMediaPause, Kitty: 57429},
	{Name: "Media_Play_Pause", Key: vaxis.KeyMediaPlayPause, Kitty: 57430},
	{Name: "Media_Stop", Key: vaxis.KeyMediaStop, Kitty: 57432},
	{Name: "Media_Track_Next", Key: vaxis.KeyMediaNext, Kitty: 57435},
	{Name: "Media_Track_Previous", Key: vaxis.KeyMediaPrev, Kitty: 57436},
	{Name: "Lower_Volume", Key: vaxis.KeyMediaVolDown, Kitty: 57438},
	{Name: "Raise_Volume", Key: vaxis.KeyMediaVolUp, Kitty: 57439},
	{Name: "Mute_Volume", Key: vaxis.KeyMediaMute, Kitty: 57440},
	{Name: "Shift_L", Key: vaxis.KeyLeftShift, Kitty: 57441},
	{Name: "Control_L", Key: vaxis.KeyLeftControl, Kitty: 57442},
	{Name: "Alt_L", Key: vaxis.KeyLeftAlt, Kitty: 57443},
	{Name: "Super_L", Key: vaxis.KeyLeftSuper, Kitty: 57444},
	{Name: "Hyper_L", Key: vaxis.KeyLeftHyper, Kitty: 57445},
	{Name: "Meta_L", Key: vaxis.KeyLeftMeta, Kitty: 57446},
	{Name: "Shift_R", Key: vaxis.KeyRightShift, Kitty: 57447},
	{Name: "Control_R", Key: vaxis.KeyRightControl, Kitty: 57448},
	{Name: "Alt_R", Key: vaxis.KeyRightAlt, Kitty: 57449},
	{Name: "Super_R", Key: vaxis.KeyRightSuper, Kitty: 57450},
	{Name: "Hyper_R", Key: vaxis.KeyRightHyper, Kitty: 57451},
	{Name: "Meta_R", Key: vaxis.KeyRightMeta, Kitty: 57452},
	{Name: "ISO_Level3_Shift", Key: vaxis.KeyL3Shift, Kitty: 57453},
	{Name: "ISO_Level5_Shift", Key: vaxis.KeyL5Shift, Kitty: 57454},
}

// Want is the expected decode of one key report.
type Want struct {
	Keycode        rune
	ShiftedCode    rune
	BaseLayoutCode rune
	Modifiers      vaxis.ModifierMask
	EventType      vaxis.EventType
	Text           string
}

func (w Want) String() string {
	return fmt.Sprintf("{Keycode:%#x Shifted:%#x Base:%#x Mods:%08b Type:%d Text:%q}", w.Keycode, w.ShiftedCode, w.BaseLayoutCode, int(w.Modifiers), int(w.EventType), w.Text)
}

// Check compares a decoded key with the expectation.
func (w Want) Check(k vaxis.Key) string {
	got := Want{k.Keycode, k.ShiftedCode, k.BaseLayoutCode, k.Modifiers, k.EventType, k.Text}
	if got != w {
		return fmt.Sprintf("decoded %v, the encoding specifies %v", got, w)
	}
	return ""
}

// finish applies the one work-around the library documents: Shift only, no
// text, printable keycode => text is the upper-cased keycode.
func finish(w Want) Want {
	n := w.Modifiers &^ (vaxis.ModCapsLock | vaxis.ModNumLock)
	if w.Text == "" && n == vaxis.ModShift && unicode.IsPrint(w.Keycode) {
		w.Text = string(unicode.ToUpper(w.Keycode))
	}
	return w
}

// ---- legacy encodings

// LegacyText: a printable grapheme sent as UTF-8.
func LegacyText(g string) (string, Want) {
	var first rune
	for _, r := range g {
		first = r
		break
	}
	w := Want{Keycode: first, Text: g}
	if unicode.IsUpper(first) {
		w.Keycode = unicode.ToLower(first)
		w.ShiftedCode = first
		w.Modifiers = vaxis.ModShift
	}
	if first == 0x7f {
		w = Want{Keycode: vaxis.KeyBackspace}
	}
	return g, finish(w)
}

// LegacyC0: a control byte.
func LegacyC0(b byte) (string, Want) {
	var w Want
	switch b {
	case 0x08:
		w.Keycode = vaxis.KeyBackspace
	case 0x09:
		w.Keycode = vaxis.KeyTab
	case 0x0d:
		w.Keycode = vaxis.KeyEnter
	case 0x1b:
		w.Keycode = vaxis.KeyEsc
	case 0x00:
		w = Want{Keycode: '@', Modifiers: vaxis.ModCtrl}
	default:
		if b <= 0x1a {
			w = Want{Keycode: rune(b) + 0x60, Modifiers: vaxis.ModCtrl}
		} else {
			w = Want{Keycode: rune(b) + 0x40, Modifiers: vaxis.ModCtrl}
		}
	}
	return string([]byte{b}), finish(w)
}

// AltPrefixable reports whether ESC <b> is an Alt+key report (and not the
// introducer of a longer sequence).
func AltPrefixable(b byte) bool {
	if b < 0x30 || b > 0x7f {
		return false
	}
	switch b {
	case '[', ']', 'P', '_', 'X', '^', 'O':
		return false
	}
	return true
}

func LegacyAlt(b byte) (string, Want) {
	return "\x1b" + string([]byte{b}), finish(Want{Keycode: rune(b), Modifiers: vaxis.ModAlt})
}

func LegacySS3(s Special) (string, Want) {
	return "\x1bO" + string([]byte{s.SS3}), finish(Want{Keycode: s.Key})
}

// xterm modifier parameter = 1 + mask(shift 1, alt 2, ctrl 4, meta 8); kitty
// extends the same scheme to 8 bits.
func LegacyCSILetter(s Special, mods int) (string, Want) {
	w := Want{Keycode: s.Key, Modifiers: vaxis.ModifierMask(mods)}
	if mods == 0 {
		return fmt.Sprintf("\x1b[%c", s.Letter), finish(Want{Keycode: s.Key})
	}
	return fmt.Sprintf("\x1b[1;%d%c", mods+1, s.Letter), finish(w)
}

func LegacyCSITilde(s Special, n int, mods int) (string, Want) {
	w := Want{Keycode: s.Key, Modifiers: vaxis.ModifierMask(mods)}
	if mods == 0 {
		return fmt.Sprintf("\x1b[%d~", n), finish(w)
	}
	return fmt.Sprintf("\x1b[%d;%d~", n, mods+1), finish(w)
}

// ModifyOtherKeys: CSI 27 ; m ; k ~
func LegacyModifyOther(key rune, mods int) (string, Want) {
	return fmt.Sprintf("\x1b[27;%d;%d~", mods+1, key), finish(Want{Keycode: key, Modifiers: vaxis.ModifierMask(mods)})
}

func ShiftTab() (string, Want) {
	return "\x1b[Z", finish(Want{Keycode: vaxis.KeyTab, Modifiers: vaxis.ModShift})
}

// ---- kitty keyboard protocol

// Kitty describes one CSI u report; negative / zero fields are omitted from
// the encoding exactly as the protocol allows.
type Kitty struct {
	Code    int   // unicode key code or functional key number
	Shifted int   // 0 = omitted
	Base    int   // 0 = omitted
	Mods    int   // mask; -1 = field omitted
	Event   int   // 1 press, 2 repeat, 3 release; 0 = omitted
	Text    []int // code points; empty = omitted
}

func (k Kitty) Encode() string {
	var sb strings.Builder
	sb.WriteString("\x1b[")
	fmt.Fprintf(&sb, "%d", k.Code)
	if k.Shifted != 0 || k.Base != 0 {
		sb.WriteByte(':')
		if k.Shifted != 0 {
			fmt.Fprintf(&sb, "%d", k.Shifted)
		}
		if k.Base != 0 {
			fmt.Fprintf(&sb, ":%d", k.Base)
		}
	}
	needMods := k.Mods >= 0 || k.Event != 0 || len(k.Text) > 0
	if needMods {
		sb.WriteByte(';')
		if k.Mods >= 0 || k.Event != 0 {
			m := k.Mods
			if m < 0 {
				m = 0
			}
			fmt.Fprintf(&sb, "%d", m+1)
		}
		if k.Event != 0 {
			fmt.Fprintf(&sb, ":%d", k.Event)
		}
	}
	if len(k.Text) > 0 {
		sb.WriteByte(';')
		for i, t := range k.Text {
			if i > 0 {
				sb.WriteByte(':')
			}
			fmt.Fprintf(&sb, "%d", t)
		}
	}
	sb.WriteByte('u')
	return sb.String()
}

var kittyKeys = func() map[int]rune {
	m := map[int]rune{27: vaxis.KeyEsc, 13: vaxis.KeyEnter, 9: vaxis.KeyTab, 127: vaxis.KeyBackspace}
	for _, s := range Specials {
		if s.Kitty != 0 {
			m[s.Kitty] = s.Key
		}
	}
	return m
}()

func (k Kitty) Want() Want {
	w := Want{Keycode: rune(k.Code), ShiftedCode: rune(k.Shifted), BaseLayoutCode: rune(k.Base)}
	if key, ok := kittyKeys[k.Code]; ok {
		w.Keycode = key
	}
	if k.Mods > 0 {
		w.Modifiers = vaxis.ModifierMask(k.Mods)
	}
	if k.Event != 0 {
		w.EventType = vaxis.EventType(k.Event - 1)
	}
	for _, t := range k.Text {
		w.Text += string(rune(t))
	}
	return finish(w)
}

// ---- mouse (SGR 1006)

type Mouse struct {
	Button  int // 0 left 1 middle 2 right 3 none, 64/65 wheel, 128.. extra
	Shift   bool
	Alt     bool
	Ctrl    bool
	Motion  bool
	Release bool
	Col     int // 0-based
	Row     int
}

func (m Mouse) Encode() string {
	b := m.Button
	if m.Shift {
		b |= 4
	}
	if m.Alt {
		b |= 8
	}
	if m.Ctrl {
		b |= 16
	}
	if m.Motion {
		b |= 32
	}
	f := 'M'
	if m.Release {
		f = 'm'
	}
	return fmt.Sprintf("\x1b[<%d;%d;%d%c", b, m.Col+1, m.Row+1, f)
}

func (m Mouse) Check(got vaxis.Mouse) string {
	want := vaxis.Mouse{Button: vaxis.MouseButton(m.Button), Row: m.Row, Col: m.Col}
	switch {
	case m.Motion:
		want.EventType = vaxis.EventMotion
	case m.Release:
		want.EventType = vaxis.EventRelease
	default:
		want.EventType = vaxis.EventPress
	}
	if m.Shift {
		want.Modifiers |= vaxis.ModShift
	}
	if m.Alt {
		want.Modifiers |= vaxis.ModAlt
	}
	if m.Ctrl {
		want.Modifiers |= vaxis.ModCtrl
	}
	if got != want {
		return fmt.Sprintf("mouse report decoded as %+v, the SGR encoding specifies %+v", got, want)
	}
	return ""
}
