// Package harness is the shared test-side runtime of every check: tier/seed/
// shard plumbing, the evidence recorder, rapid wrapper, replay codec, crash
// journal and known-findings table.  See DESIGN.md §2.
package harness

import (
	"encoding/binary"
	"encoding/json"
	"flag"
	"fmt"
	"hash/fnv"
	"os"
	"path/filepath"
	"sort"
	"strconv"
	"strings"
	"sync"
	"testing"
	"time"

	"pgregory.net/rapid"
)

// ---------------------------------------------------------------------------
// environment

// Root is /verif (overridable for snapshots run by `vp run`).
func Root() string {
	if r := os.Getenv("VERIF_ROOT"); r != "" {
		return r
	}
	return "/verif"
}

func Tier() string {
	if os.Getenv("VERIF_TIER") == "thorough" {
		return "thorough"
	}
	return "quick"
}

func Thorough() bool { return Tier() == "thorough" }

// Scale picks a case count by tier.
func Scale(quick, thorough int) int {
	if Thorough() {
		return thorough
	}
	return quick
}

func Seed() int64 {
	n, _ := strconv.ParseInt(os.Getenv("VERIF_SEED"), 10, 64)
	return n
}

// Shard returns (index, count) of this process among the shard processes.
func Shard() (int, int) {
	s := os.Getenv("VERIF_SHARD")
	if s == "" {
		return 0, 1
	}
	parts := strings.Split(s, "/")
	if len(parts) != 2 {
		return 0, 1
	}
	i, _ := strconv.Atoi(parts[0])
	n, _ := strconv.Atoi(parts[1])
	if n < 1 {
		return 0, 1
	}
	return i, n
}

// PerShard divides a total case count among shards (at least 1 each).
func PerShard(total int) int {
	_, n := Shard()
	k := (total + n - 1) / n
	if k < 1 {
		k = 1
	}
	return k
}

// MyRange splits [0,total) into the contiguous slice owned by this shard.
func MyRange(total int) (lo, hi int) {
	i, n := Shard()
	lo = total * i / n
	hi = total * (i + 1) / n
	return
}

// Mine reports whether enumeration index idx belongs to this shard
// (round-robin; use for enumerators whose cost varies along the index).
func Mine(idx int) bool {
	i, n := Shard()
	return idx%n == i
}

func WorkDir() string {
	d := os.Getenv("VERIF_WORK")
	if d == "" {
		d = filepath.Join(Root(), ".work", "adhoc")
	}
	_ = os.MkdirAll(d, 0o755)
	return d
}

// ---------------------------------------------------------------------------
// recorder

type Violation struct {
	Sub    string          `json:"sub"`
	Msg    string          `json:"msg"`
	Case   json.RawMessage `json:"case,omitempty"`
	Replay string          `json:"replay,omitempty"`
}

type subStats struct {
	Evals    int64            `json:"evaluations"`
	Labels   map[string]int64 `json:"labels,omitempty"`
	Excluded map[string]int64 `json:"excluded,omitempty"`
	Samples  []any            `json:"samples,omitempty"`
	nSampled int64
	Exhaust  bool `json:"exhaustive,omitempty"`
}

type Recorder struct {
	mu         sync.Mutex
	Property   string
	subs       map[string]*subStats
	hashes     map[uint64]struct{}
	hashCapped bool
	viols      []Violation
	known      map[string]string
	notes      []string
	start      time.Time
}

const hashCap = 4_000_000

var R = &Recorder{subs: map[string]*subStats{}, hashes: map[uint64]struct{}{}, known: map[string]string{}, start: time.Now()}

func (r *Recorder) sub(name string) *subStats {
	s := r.subs[name]
	if s == nil {
		s = &subStats{Labels: map[string]int64{}, Excluded: map[string]int64{}}
		r.subs[name] = s
	}
	return s
}

// Eval counts one executed case of sub-check sub.
func (r *Recorder) Eval(sub string) {
	r.mu.Lock()
	r.sub(sub).Evals++
	r.mu.Unlock()
}

func (r *Recorder) EvalN(sub string, n int64) {
	r.mu.Lock()
	r.sub(sub).Evals += n
	r.mu.Unlock()
}

// Nontrivial records that a case satisfied the non-triviality rule; key is
// the canonical encoding of the case (any JSON-able value or a string).
func (r *Recorder) Nontrivial(sub string, key any) {
	h := fnv.New64a()
	h.Write([]byte(sub))
	h.Write([]byte{0})
	switch k := key.(type) {
	case string:
		h.Write([]byte(k))
	case []byte:
		h.Write(k)
	default:
		b, _ := json.Marshal(k)
		h.Write(b)
	}
	v := h.Sum64()
	r.mu.Lock()
	if len(r.hashes) < hashCap {
		r.hashes[v] = struct{}{}
	} else {
		r.hashCapped = true
	}
	r.mu.Unlock()
}

func (r *Recorder) Label(sub, label string) {
	r.mu.Lock()
	r.sub(sub).Labels[label]++
	r.mu.Unlock()
}

func (r *Recorder) Excluded(sub, why string) {
	r.mu.Lock()
	r.sub(sub).Excluded[why]++
	r.mu.Unlock()
}

func (r *Recorder) Exhaustive(sub string) {
	r.mu.Lock()
	r.sub(sub).Exhaust = true
	r.mu.Unlock()
}

// Sample keeps the first two and a deterministic thinning of later cases.
func (r *Recorder) Sample(sub string, v any) {
	r.mu.Lock()
	defer r.mu.Unlock()
	s := r.sub(sub)
	s.nSampled++
	n := s.nSampled
	if len(s.Samples) < 2 {
		s.Samples = append(s.Samples, v)
		return
	}
	// keep samples at indices that are powers of 4 (deterministic, sparse)
	if n&(n-1) == 0 && bitsLen(n)%2 == 1 && len(s.Samples) < 6 {
		s.Samples = append(s.Samples, v)
	}
}

func bitsLen(n int64) int {
	k := 0
	for n > 0 {
		k++
		n >>= 1
	}
	return k
}

func (r *Recorder) Note(format string, a ...any) {
	r.mu.Lock()
	r.notes = append(r.notes, fmt.Sprintf(format, a...))
	r.mu.Unlock()
}

// Violate records a violation with its (already minimal) case.
func (r *Recorder) Violate(sub, msg string, c any) {
	var raw json.RawMessage
	if c != nil {
		raw, _ = json.Marshal(c)
	}
	r.mu.Lock()
	r.viols = append(r.viols, Violation{Sub: sub, Msg: msg, Case: raw})
	r.mu.Unlock()
}

func (r *Recorder) KnownFinding(id, what string) {
	r.mu.Lock()
	r.known[id] = what
	r.mu.Unlock()
}

// Part is the per-shard output merged by the driver.
type Part struct {
	Property   string               `json:"property"`
	Tier       string               `json:"tier"`
	Seed       int64                `json:"seed"`
	Shard      int                  `json:"shard"`
	Subs       map[string]*subStats `json:"subs"`
	HashFile   string               `json:"hash_file"`
	HashCapped bool                 `json:"hash_capped"`
	Violations []Violation          `json:"violations"`
	Known      map[string]string    `json:"known"`
	Notes      []string             `json:"notes"`
	WallS      float64              `json:"wall_s"`
	ExitCode   int                  `json:"exit_code"`
}

func (r *Recorder) writePart(code int) {
	r.mu.Lock()
	defer r.mu.Unlock()
	i, _ := Shard()
	dir := WorkDir()
	hf := filepath.Join(dir, fmt.Sprintf("hashes-%d.bin", i))
	hs := make([]uint64, 0, len(r.hashes))
	for h := range r.hashes {
		hs = append(hs, h)
	}
	sort.Slice(hs, func(a, b int) bool { return hs[a] < hs[b] })
	buf := make([]byte, 8*len(hs))
	for k, h := range hs {
		binary.LittleEndian.PutUint64(buf[8*k:], h)
	}
	_ = os.WriteFile(hf, buf, 0o644)
	p := Part{Property: r.Property, Tier: Tier(), Seed: Seed(), Shard: i, Subs: r.subs, HashFile: hf,
		HashCapped: r.hashCapped, Violations: r.viols, Known: r.known, Notes: r.notes,
		WallS: time.Since(r.start).Seconds(), ExitCode: code}
	b, _ := json.MarshalIndent(p, "", " ")
	_ = os.WriteFile(filepath.Join(dir, fmt.Sprintf("part-%d.json", i)), b, 0o644)
}

// Main is every check package's TestMain body.
func Main(m *testing.M, property string) {
	R.Property = property
	flag.Parse()
	_ = flag.Set("rapid.nofailfile", "true")
	loadKnown()
	code := m.Run()
	R.mu.Lock()
	nv := len(R.viols)
	R.mu.Unlock()
	if nv > 0 && code == 0 {
		code = 1
	}
	R.writePart(code)
	os.Exit(code)
}

// ---------------------------------------------------------------------------
// rapid wrapper

var rapidMu sync.Mutex

func subSeed(sub string) uint64 {
	h := fnv.New64a()
	h.Write([]byte(sub))
	i, n := Shard()
	s := uint64(Seed())*1_000_003 + uint64(i) + uint64(n)*131 + h.Sum64()%1_000_000_007
	if s == 0 {
		s = 1
	}
	return s
}

type lastFail struct {
	msg string
	c   any
	set bool
}

// Check runs a rapid property n times (per this shard).  gen draws a case
// (a JSON-able value), run executes it and returns a non-empty message on
// violation.  The minimal failing case is recorded as a Violation of sub.
// Returns false if a violation was found.
func Check[C any](t *testing.T, sub string, n int, gen func(*rapid.T) C, run func(C) string) bool {
	t.Helper()
	if ReplayPath() != "" {
		return true
	}
	rapidMu.Lock()
	defer rapidMu.Unlock()
	_ = flag.Set("rapid.checks", strconv.Itoa(n))
	_ = flag.Set("rapid.seed", strconv.FormatUint(subSeed(sub), 10))
	_ = flag.Set("rapid.nofailfile", "true")
	if flag.Lookup("rapid.shrinktime") != nil {
		_ = flag.Set("rapid.shrinktime", "20s")
	}
	var lf lastFail
	ok := t.Run(sub, func(t *testing.T) {
		rapid.Check(t, func(rt *rapid.T) {
			c := gen(rt)
			msg := run(c)
			if msg != "" {
				lf = lastFail{msg: msg, c: c, set: true}
				rt.Fatalf("%s", msg)
			}
			R.Eval(sub)
		})
	})
	if !ok {
		if lf.set {
			R.Violate(sub, lf.msg, Envelope{Sub: sub, Case: mustRaw(lf.c)})
		} else {
			R.Violate(sub, "rapid reported a failure without a recorded case (panic in generator or flaky)", nil)
		}
	}
	return ok
}

func mustRaw(v any) json.RawMessage {
	b, err := json.Marshal(v)
	if err != nil {
		b, _ = json.Marshal(fmt.Sprintf("unmarshalable case: %v", err))
	}
	return b
}

// Envelope is the replay file format: which sub-check, and its case.
type Envelope struct {
	Sub  string          `json:"sub"`
	Case json.RawMessage `json:"case"`
	Note string          `json:"note,omitempty"`
}

// Fail records a violation found by a non-rapid enumerator.
func Fail(t *testing.T, sub, msg string, c any) {
	t.Helper()
	R.Violate(sub, msg, Envelope{Sub: sub, Case: mustRaw(c)})
	t.Errorf("%s: %s", sub, msg)
}

// FuzzSave writes the replay envelope of an input a fuzz target's oracle
// rejected (see FuzzFail); for targets built with rapid.MakeFuzz, which have
// no *testing.T of their own.
func FuzzSave(sub, msg string, c any) {
	dir := os.Getenv("VERIF_FUZZ_DIR")
	if dir == "" {
		return
	}
	raw := mustRaw(c)
	h := fnv.New64a()
	_, _ = h.Write(raw)
	b, _ := json.MarshalIndent(Envelope{Sub: sub, Case: raw, Note: msg}, "", " ")
	_ = os.MkdirAll(dir, 0o755)
	_ = os.WriteFile(filepath.Join(dir, fmt.Sprintf("%s-%016x.json", sub, h.Sum64())), b, 0o644)
}

// FuzzFail is called by a native fuzz target whose oracle rejected an input:
// the case is written as an ordinary replay envelope into $VERIF_FUZZ_DIR (the
// driver turns each file into a VIOLATION line), then the fuzz run is failed.
func FuzzFail(t *testing.T, sub, msg string, c any) {
	t.Helper()
	if dir := os.Getenv("VERIF_FUZZ_DIR"); dir != "" {
		raw := mustRaw(c)
		h := fnv.New64a()
		_, _ = h.Write(raw)
		b, _ := json.MarshalIndent(Envelope{Sub: sub, Case: raw, Note: msg}, "", " ")
		_ = os.MkdirAll(dir, 0o755)
		_ = os.WriteFile(filepath.Join(dir, fmt.Sprintf("%s-%016x.json", sub, h.Sum64())), b, 0o644)
	}
	t.Fatalf("%s: %s", sub, msg)
}

// ---------------------------------------------------------------------------
// replay

func ReplayPath() string { return os.Getenv("VERIF_REPLAY") }

func LoadEnvelope(path string) (Envelope, error) {
	var e Envelope
	b, err := os.ReadFile(path)
	if err != nil {
		return e, err
	}
	err = json.Unmarshal(b, &e)
	return e, err
}

// Runner executes one stored case of a sub-check; "" = property held.
type Runner func(raw json.RawMessage) string

// Decode adapts a typed run function to a Runner.
func Decode[C any](run func(C) string) Runner {
	return func(raw json.RawMessage) string {
		var c C
		if err := json.Unmarshal(raw, &c); err != nil {
			return "replay: cannot decode case: " + err.Error()
		}
		return run(c)
	}
}

// ReplayAll is each package's TestReplay body.  With VERIF_REPLAY set it runs
// that one file (failure = violation).  Otherwise it runs the regression tier:
// every file under replays/<ID>/ that belongs to a fixed or unlisted finding
// must pass, and every file of an active known finding must still fail (then
// a KNOWN-FINDING line is emitted) — a known finding that no longer
// reproduces is only noted.
func ReplayAll(t *testing.T, runners map[string]Runner) {
	if p := ReplayPath(); p != "" {
		e, err := LoadEnvelope(p)
		if err != nil {
			t.Fatalf("replay: %v", err)
		}
		run := runners[e.Sub]
		if run == nil {
			t.Fatalf("replay: unknown sub-check %q", e.Sub)
		}
		Strict = true
		msg := run(e.Case)
		Strict = false
		if msg != "" {
			R.Violate(e.Sub, msg, e)
			t.Errorf("replay %s: %s", p, msg)
		} else {
			t.Logf("replay %s: property held", p)
		}
		return
	}
	if s, _ := Shard(); s != 0 {
		return
	}
	dir := filepath.Join(Root(), "replays", R.Property)
	files, _ := filepath.Glob(filepath.Join(dir, "*.json"))
	sort.Strings(files)
	for _, f := range files {
		e, err := LoadEnvelope(f)
		if err != nil {
			t.Errorf("replay %s: %v", f, err)
			continue
		}
		run := runners[e.Sub]
		if run == nil {
			t.Errorf("replay %s: unknown sub-check %q", f, e.Sub)
			continue
		}
		kf := knownByReplay(f)
		R.Eval("replay")
		if kf != nil && kf.Status == "known" {
			// probe with every relaxation for *this* finding off
			probing = kf.ID
			msg := run(e.Case)
			probing = ""
			if msg != "" {
				R.KnownFinding(kf.ID, kf.Title)
			} else {
				R.Note("known finding %s no longer reproduces from %s", kf.ID, filepath.Base(f))
			}
			continue
		}
		msg := run(e.Case)
		if msg != "" {
			ee := e
			R.mu.Lock()
			raw, _ := json.Marshal(ee)
			R.viols = append(R.viols, Violation{Sub: e.Sub, Msg: msg, Case: raw, Replay: f})
			R.mu.Unlock()
			t.Errorf("regression replay %s: %s", f, msg)
		}
	}
}

// ---------------------------------------------------------------------------
// known findings

type Finding struct {
	ID       string `json:"id"`
	Property string `json:"property"`
	Status   string `json:"status"` // "known" | "fixed"
	Title    string `json:"title"`
	Where    string `json:"where,omitempty"`
	Replay   string `json:"replay,omitempty"` // path relative to /verif
	Commit   string `json:"commit,omitempty"`
	Line     string `json:"line,omitempty"`
}

var (
	findings []Finding
	probing  string
	// Strict disables every known-finding relaxation (used by --replay).
	Strict bool
)

func loadKnown() {
	b, err := os.ReadFile(filepath.Join(Root(), "known_findings.json"))
	if err != nil {
		return
	}
	var doc struct {
		Findings []Finding `json:"findings"`
	}
	if err := json.Unmarshal(b, &doc); err != nil {
		fmt.Fprintf(os.Stderr, "known_findings.json: %v\n", err)
		return
	}
	findings = doc.Findings
}

// Known reports whether finding id is listed as an open known finding, i.e.
// whether generators should avoid / oracles should relax its signature.  It
// is false while that very finding is being probed, and under Strict.
func Known(id string) bool {
	if Strict || probing == id {
		return false
	}
	for _, f := range findings {
		if f.ID == id && f.Status == "known" {
			return true
		}
	}
	return false
}

// Title returns the recorded title of a finding.
func Title(id string) string {
	for _, f := range findings {
		if f.ID == id {
			return f.Title
		}
	}
	return id
}

func knownByReplay(path string) *Finding {
	for i := range findings {
		if findings[i].Replay == "" {
			continue
		}
		if filepath.Join(Root(), findings[i].Replay) == path {
			return &findings[i]
		}
	}
	return nil
}

// ---------------------------------------------------------------------------
// crash journal: the case about to run, for failures that kill the process

var journalMu sync.Mutex

func JournalBegin(sub string, c any) {
	journalMu.Lock()
	defer journalMu.Unlock()
	i, _ := Shard()
	e := Envelope{Sub: sub, Case: mustRaw(c)}
	b, _ := json.Marshal(e)
	_ = os.WriteFile(filepath.Join(WorkDir(), fmt.Sprintf("journal-%d.json", i)), b, 0o644)
}

func JournalEnd() {
	journalMu.Lock()
	defer journalMu.Unlock()
	i, _ := Shard()
	_ = os.Remove(filepath.Join(WorkDir(), fmt.Sprintf("journal-%d.json", i)))
}

// Confirm wraps a run function so that a failure is reported only if the
// identical case fails on every one of `times` further attempts (DESIGN §2.6:
// outcomes that can depend on the hard-wired real-time constants of the code
// under test — 10 ms Escape timer, 50 ms cursor-position timeout — are
// re-confirmed; a deterministic defect survives this, a scheduling hiccup on a
// loaded machine does not).
func Confirm[C any](run func(C) string, times int) func(C) string {
	return func(c C) string {
		msg := run(c)
		if msg == "" {
			return ""
		}
		for i := 0; i < times; i++ {
			if m2 := run(c); m2 == "" {
				R.Label("confirm", "failure-not-reproduced")
				return ""
			}
		}
		return msg
	}
}
