// Package vxdrive starts a real vaxis.Vaxis on a faketty/refterm pair and
// offers the small synchronisation helpers the checks need.
package vxdrive

import (
	"fmt"
	"time"

	vaxis "git.sr.ht/~rockorager/vaxis"

	"verif/internal/faketty"
	"verif/internal/refterm"
)

type Opts struct {
	DisableKitty bool `json:"disable_kitty,omitempty"`
	DisableMouse bool `json:"disable_mouse,omitempty"`
	CSIu         int  `json:"csiu,omitempty"`
	ReportEvents bool `json:"report_events,omitempty"`
	QueueSize    int  `json:"queue,omitempty"`
}

type Session struct {
	TTY  *faketty.TTY
	Term *refterm.Term
	Vx   *vaxis.Vaxis
}

// Start creates the terminal and runs vaxis.New against it.
func Start(cols, rows int, caps refterm.Caps, o Opts) (*Session, error) {
	tty := faketty.New(cols, rows, caps)
	tty.Term.Strict = true
	return StartOn(tty, o)
}

func StartOn(tty *faketty.TTY, o Opts) (*Session, error) {
	type res struct {
		vx  *vaxis.Vaxis
		err error
	}
	ch := make(chan res, 1)
	go func() {
		vx, err := vaxis.New(vaxis.Options{
			WithConsole:          tty,
			NoSignals:            true,
			DisableKittyKeyboard: o.DisableKitty,
			DisableMouse:         o.DisableMouse,
			CSIuBitMask:          vaxis.CSIuBitMask(o.CSIu),
			ReportKeyboardEvents: o.ReportEvents,
			EventQueueSize:       o.QueueSize,
		})
		ch <- res{vx, err}
	}()
	select {
	case r := <-ch:
		if r.err != nil {
			return nil, r.err
		}
		return &Session{TTY: tty, Term: tty.Term, Vx: r.vx}, nil
	case <-time.After(10 * time.Second):
		return nil, fmt.Errorf("vaxis.New did not return within 10s")
	}
}

// Drain removes every queued event without blocking and returns them.
func (s *Session) Drain() []vaxis.Event {
	var out []vaxis.Event
	for {
		select {
		case ev := <-s.Vx.Events():
			out = append(out, ev)
		default:
			return out
		}
	}
}

// WaitFor reads events until pred accepts one; false on timeout.
func (s *Session) WaitFor(pred func(vaxis.Event) bool, d time.Duration) ([]vaxis.Event, bool) {
	var seen []vaxis.Event
	deadline := time.NewTimer(d)
	defer deadline.Stop()
	for {
		select {
		case ev := <-s.Vx.Events():
			seen = append(seen, ev)
			if pred(ev) {
				return seen, true
			}
		case <-deadline.C:
			return seen, false
		}
	}
}

// Close calls vx.Close with a watchdog; false if it did not return.
func (s *Session) Close(d time.Duration) bool {
	done := make(chan struct{})
	go func() {
		s.Vx.Close()
		close(done)
	}()
	select {
	case <-done:
		return true
	case <-time.After(d):
		return false
	}
}

// Sync waits until everything injected so far (terminal replies included) has
// been consumed by the input loop: a focus-in report is appended to the input
// and its event awaited.  Events seen on the way are returned.
func (s *Session) Sync(d time.Duration) ([]vaxis.Event, bool) {
	s.TTY.InjectString("\x1b[I")
	evs, ok := s.WaitFor(func(ev vaxis.Event) bool { _, is := ev.(vaxis.FocusIn); return is }, d)
	if ok {
		evs = evs[:len(evs)-1]
	}
	return evs, ok
}
