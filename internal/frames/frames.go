// Package frames holds the frame-history case type, its generator and the
// application of a history to a Vaxis and to the harness mirror.  It is shared
// by C01 (reference terminal) and C12 (embedded terminal emulator).
package frames

import (
	vaxis "git.sr.ht/~rockorager/vaxis"
	"pgregory.net/rapid"

	"verif/internal/gen"
	"verif/internal/harness"
	"verif/internal/model"
	"verif/internal/refterm"
	"verif/internal/vxdrive"
	"verif/internal/widthtab"
)

type cursorWant = model.CursorWant

type Op struct {
	Kind  string          `json:"k"` // clear fill set style print show hide
	Col   int             `json:"c,omitempty"`
	Row   int             `json:"r,omitempty"`
	Cell  model.CellSpec  `json:"cell,omitempty"`
	Text  []string        `json:"text,omitempty"` // print: graphemes
	Style model.StyleSpec `json:"style,omitempty"`
	Shape int             `json:"shape,omitempty"`
}

type Scrib struct {
	Row, Col int
	G        string
	W        int
}

type Frame struct {
	Ops      []Op    `json:"ops"`
	End      string  `json:"end"` // render | refresh | resize
	Cols     int     `json:"cols,omitempty"`
	Rows     int     `json:"rows,omitempty"`
	Scribble []Scrib `json:"scribble,omitempty"`
	// ByRefresh: the call that notices the new size is Refresh, not Render
	ByRefresh bool `json:"by_refresh,omitempty"`
}

type Case struct {
	Cols   int          `json:"cols"`
	Rows   int          `json:"rows"`
	Caps   refterm.Caps `json:"caps"`
	Opts   vxdrive.Opts `json:"opts"`
	Frames []Frame      `json:"frames"`
}

// ApplyMirror applies one op to the harness mirror.
func ApplyMirror(m *model.Mirror, cw *cursorWant, op Op, method widthtab.Method) {
	switch op.Kind {
	case "clear":
		m.Clear()
	case "fill":
		m.Fill(op.Cell)
	case "set":
		m.Set(op.Col, op.Row, op.Cell)
	case "style":
		m.SetStyle(op.Col, op.Row, op.Style)
	case "print":
		col := op.Col
		for _, g := range op.Text {
			w, _ := widthtab.Width(g, method)
			m.Set(col, op.Row, model.CellSpec{G: g, W: w, Style: op.Style})
			col += w
		}
	case "show":
		*cw = cursorWant{Visible: true, Col: op.Col, Row: op.Row, Shape: op.Shape}
	case "hide":
		cw.Visible = false
	}
}

func ApplyVaxis(vx *vaxis.Vaxis, op Op) {
	win := vx.Window()
	switch op.Kind {
	case "clear":
		win.Clear()
	case "fill":
		win.Fill(op.Cell.Vaxis())
	case "set":
		win.SetCell(op.Col, op.Row, op.Cell.Vaxis())
	case "style":
		win.SetStyle(op.Col, op.Row, op.Style.Vaxis())
	case "print":
		text := ""
		for _, g := range op.Text {
			text += g
		}
		w, _ := win.Size()
		win.New(op.Col, op.Row, w-op.Col, 1).Print(vaxis.Segment{Text: text, Style: op.Style.Vaxis()})
	case "pointer":
		vx.SetMouseShape(vaxis.MouseShape(op.Text[0]))
	case "show":
		vx.ShowCursor(op.Col, op.Row, vaxis.CursorStyle(op.Shape))
	case "hide":
		vx.HideCursor()
	}
}

// ---------------------------------------------------------------------------
// generator

func GenOps(rt *rapid.T, m *model.Mirror, cw *cursorWant, tc model.TermConfig, styles []model.StyleSpec, n int) []Op {
	method := tc.Method()
	var ops []Op
	for i := 0; i < n; i++ {
		var op Op
		switch rapid.IntRange(0, 16).Draw(rt, "op") {
		case 16:
			// the pointer shape is not part of the screen, but its escape
			// sequence shares the frame's byte stream with the cells and
			// the cursor
			op = Op{Kind: "pointer", Text: []string{rapid.SampledFrom([]string{"default", "pointer", "text", "wait"}).Draw(rt, "pointer")}}
		case 0:
			op = Op{Kind: "clear"}
		case 1:
			cell := gen.Cell(rt, styles, method, m.Cols, tc.Caps.ExplicitWidth)
			op = Op{Kind: "fill", Cell: cell}
		case 2, 3, 4, 5, 6, 7, 8:
			col := rapid.IntRange(0, m.Cols-1).Draw(rt, "col")
			row := rapid.IntRange(0, m.Rows-1).Draw(rt, "row")
			op = Op{Kind: "set", Col: col, Row: row, Cell: gen.Cell(rt, styles, method, m.Cols-col, tc.Caps.ExplicitWidth)}
		case 9, 10:
			op = Op{Kind: "style", Col: rapid.IntRange(0, m.Cols-1).Draw(rt, "col"), Row: rapid.IntRange(0, m.Rows-1).Draw(rt, "row"),
				Style: rapid.SampledFrom(styles).Draw(rt, "st")}
		case 11, 12:
			col := rapid.IntRange(0, m.Cols-1).Draw(rt, "col")
			row := rapid.IntRange(0, m.Rows-1).Draw(rt, "row")
			room := m.Cols - col
			var text []string
			k := rapid.IntRange(1, 6).Draw(rt, "nchars")
			for j := 0; j < k; j++ {
				g := gen.Grapheme(rt, "pg")
				if e, _ := widthtab.Lookup(g); e.Class == "zero" && j > 0 {
					// a combining mark or ZWJ would merge with the
					// previous cluster: the text would not be the
					// clusters the mirror records
					continue
				}
				w, _ := widthtab.Width(g, method)
				if w > room {
					break
				}
				room -= w
				text = append(text, g)
			}
			if len(text) == 0 {
				continue
			}
			op = Op{Kind: "print", Col: col, Row: row, Text: text, Style: rapid.SampledFrom(styles).Draw(rt, "st")}
		case 13, 14:
			op = Op{Kind: "show", Col: rapid.IntRange(0, m.Cols-1).Draw(rt, "ccol"), Row: rapid.IntRange(0, m.Rows-1).Draw(rt, "crow"),
				Shape: rapid.IntRange(0, 6).Draw(rt, "shape")}
		case 15:
			op = Op{Kind: "hide"}
		}
		// keep the history inside the domain: no glyph across the right edge
		trial := CloneMirror(m)
		tcw := *cw
		ApplyMirror(trial, &tcw, op, method)
		if _, overflow := tc.Expected(trial); overflow > 0 {
			harness.R.Excluded("histories", "op would put a wide glyph across the right edge")
			continue
		}
		ApplyMirror(m, cw, op, method)
		ops = append(ops, op)
	}
	return ops
}

func CloneMirror(m *model.Mirror) *model.Mirror {
	n := model.NewMirror(m.Cols, m.Rows)
	for r := range m.Cells {
		copy(n.Cells[r], m.Cells[r])
	}
	return n
}

var scribbleGlyphs = []struct {
	g string
	w int
}{{"X", 1}, {"#", 1}, {"宽", 2}, {"", 1}}

func GenScribble(rt *rapid.T, cols, rows int) []Scrib {
	var out []Scrib
	n := rapid.IntRange(0, 5).Draw(rt, "nscribble")
	for i := 0; i < n; i++ {
		sg := rapid.SampledFrom(scribbleGlyphs).Draw(rt, "sg")
		if sg.w > cols {
			continue
		}
		out = append(out, Scrib{Row: rapid.IntRange(0, rows-1).Draw(rt, "srow"), Col: rapid.IntRange(0, cols-sg.w).Draw(rt, "scol"), G: sg.g, W: sg.w})
	}
	return out
}

func GenCase(rt *rapid.T) Case { return GenCaseFor(rt, nil, true) }

// GenCaseFor draws a history for a terminal with fixed capabilities (nil =
// drawn) and optionally without resize frames.
func GenCaseFor(rt *rapid.T, fixed *refterm.Caps, resizes bool) Case {
	c := Case{}
	if rapid.IntRange(0, 19).Draw(rt, "big") == 0 {
		c.Cols, c.Rows = rapid.IntRange(13, 40).Draw(rt, "cols"), rapid.IntRange(1, 12).Draw(rt, "rows")
	} else {
		c.Cols, c.Rows = rapid.IntRange(1, 12).Draw(rt, "cols"), rapid.IntRange(1, 6).Draw(rt, "rows")
	}
	c.Caps = gen.Caps(rt)
	if fixed != nil {
		c.Caps = *fixed
	}
	if c.Cols == 1 && c.Caps.ExplicitWidth {
		// the explicit-width probe (print one cell, ask for the column)
		// cannot be answered on a one-column screen: not advertisable
		c.Caps.ExplicitWidth = false
		harness.R.Excluded("histories", "explicit width on a 1-column terminal")
	}
	c.Opts = vxdrive.Opts{DisableKitty: rapid.Bool().Draw(rt, "nokitty"), DisableMouse: rapid.Bool().Draw(rt, "nomouse")}
	tc := model.TermConfig{Caps: c.Caps}
	styles := gen.Styles(rt, rapid.IntRange(1, 4).Draw(rt, "nstyles"))
	m := model.NewMirror(c.Cols, c.Rows)
	cw := cursorWant{}
	nf := rapid.IntRange(1, harness.Scale(6, 12)).Draw(rt, "nframes")
	for i := 0; i < nf; i++ {
		f := Frame{}
		f.Ops = GenOps(rt, m, &cw, tc, styles, rapid.IntRange(0, 8).Draw(rt, "nops"))
		end := rapid.IntRange(0, 9).Draw(rt, "end")
		if end == 2 && !resizes {
			end = 3
		}
		switch end {
		case 0, 1:
			f.End = "refresh"
			f.Scribble = GenScribble(rt, m.Cols, m.Rows)
		case 2:
			f.End = "resize"
			f.Scribble = GenScribble(rt, m.Cols, m.Rows)
			f.Cols, f.Rows = rapid.IntRange(1, 12).Draw(rt, "ncols"), rapid.IntRange(1, 6).Draw(rt, "nrows")
			f.ByRefresh = rapid.IntRange(0, 2).Draw(rt, "noticed-by-refresh") == 1
			// drawing done in this frame is discarded by the resize
			if f.Cols != m.Cols || f.Rows != m.Rows {
				m = model.NewMirror(f.Cols, f.Rows)
			}
			if cw.Col >= f.Cols || cw.Row >= f.Rows {
				cw.Visible = false
			}
		default:
			f.End = "render"
		}
		c.Frames = append(c.Frames, f)
	}
	return c
}

// Classify computes labels / non-triviality by replaying the mirror.
func Classify(sub string, c Case) {
	tc := model.TermConfig{Caps: c.Caps}
	method := tc.Method()
	m := model.NewMirror(c.Cols, c.Rows)
	cw := cursorWant{}
	var prev [][]model.ExpCell
	rendered, rewrites := 0, false
	for _, f := range c.Frames {
		for _, op := range f.Ops {
			ApplyMirror(m, &cw, op, method)
			harness.R.Label(sub, "op:"+op.Kind)
		}
		harness.R.Label(sub, "end:"+f.End)
		if f.End == "resize" && f.ByRefresh {
			harness.R.Label(sub, "size change noticed by Refresh")
		}
		if f.End == "resize" {
			if f.Cols != m.Cols || f.Rows != m.Rows {
				m = model.NewMirror(f.Cols, f.Rows)
			}
			prev = nil
			continue
		}
		rendered++
		exp, _ := tc.Expected(m)
		if prev != nil && len(prev) == len(exp) {
			for r := range exp {
				for col := range exp[r] {
					a, b := prev[r][col], exp[r][col]
					if a.G != b.G || a.W != b.W {
						rewrites = true
						switch {
						case a.W >= 2 && b.W == 1:
							harness.R.Label(sub, "wide->narrow")
						case a.W == 1 && b.W >= 2:
							harness.R.Label(sub, "narrow->wide")
						case a.W == 0 && b.W >= 1:
							harness.R.Label(sub, "covered->lead")
						}
					}
				}
			}
		}
		prev = exp
	}
	if rendered >= 2 && rewrites {
		harness.R.Nontrivial(sub, c)
		harness.R.Label(sub, "nontrivial")
	}
	harness.R.Label(sub, "method:"+method.String())
	harness.R.Sample(sub, c)
}
