// Package gen holds shared rapid generators: styles, cells, capability sets.
package gen

import (
	"pgregory.net/rapid"

	"verif/internal/model"
	"verif/internal/refterm"
	"verif/internal/widthtab"
)

const (
	tagIndex = 1 << 24
	tagRGB   = 1 << 25
)

func Index(i int) uint32     { return uint32(i)&0xff | tagIndex }
func RGB(r, g, b int) uint32 { return uint32(r&0xff)<<16 | uint32(g&0xff)<<8 | uint32(b&0xff) | tagRGB }
func IsRGB(c uint32) bool    { return c&tagRGB != 0 && c&tagIndex == 0 }
func ColorClass(c uint32) string {
	switch {
	case c&tagIndex != 0:
		i := c & 0xff
		switch {
		case i < 8:
			return "idx0-7"
		case i < 16:
			return "idx8-15"
		}
		return "idx16-255"
	case c&tagRGB != 0:
		return "rgb"
	}
	return "default"
}

// Color draws a colour from the five classes.
func Color(rt *rapid.T, label string) uint32 {
	switch rapid.IntRange(0, 7).Draw(rt, label+"-class") {
	case 0, 1, 2:
		return 0
	case 3:
		return Index(rapid.IntRange(0, 7).Draw(rt, label))
	case 4:
		return Index(rapid.IntRange(8, 15).Draw(rt, label))
	case 5:
		return Index(rapid.IntRange(16, 255).Draw(rt, label))
	default:
		if rapid.Bool().Draw(rt, label+"-edge") {
			// palette colours and their neighbours
			i := rapid.IntRange(16, 255).Draw(rt, label+"-near")
			r, g, b := refterm.Palette(i)
			d := rapid.IntRange(-1, 1).Draw(rt, label+"-d")
			return RGB(clampB(int(r)+d), clampB(int(g)-d), clampB(int(b)+d))
		}
		return RGB(rapid.IntRange(0, 255).Draw(rt, label+"-r"), rapid.IntRange(0, 255).Draw(rt, label+"-g"), rapid.IntRange(0, 255).Draw(rt, label+"-b"))
	}
}

func clampB(v int) int {
	if v < 0 {
		return 0
	}
	if v > 255 {
		return 255
	}
	return v
}

var links = []string{"", "", "", "https://a.example/", "https://b.example/x?y=1"}
var linkParams = []string{"", "", "id=1", "id=2"}

// Style draws a style; plain styles are common so that transitions to and
// from the default occur.
func Style(rt *rapid.T, label string) model.StyleSpec {
	if rapid.IntRange(0, 3).Draw(rt, label+"-plain") == 0 {
		return model.StyleSpec{}
	}
	s := model.StyleSpec{
		Fg: Color(rt, label+"-fg"),
		Bg: Color(rt, label+"-bg"),
	}
	if rapid.IntRange(0, 1).Draw(rt, label+"-attrs?") == 0 {
		s.Attr = uint8(rapid.IntRange(0, 127).Draw(rt, label+"-attr")) << 1
	}
	if rapid.IntRange(0, 2).Draw(rt, label+"-ul?") == 0 {
		s.UlStyle = uint8(rapid.IntRange(0, 5).Draw(rt, label+"-uls"))
		s.Ul = Color(rt, label+"-ulc")
	}
	s.Link = rapid.SampledFrom(links).Draw(rt, label+"-link")
	if s.Link != "" || rapid.IntRange(0, 5).Draw(rt, label+"-lp-nolink") == 0 {
		s.LinkP = rapid.SampledFrom(linkParams).Draw(rt, label+"-lp")
	}
	return s
}

// Palette of a few styles for a case, so that neighbouring cells often share
// or nearly share a style (transition coverage).
func Styles(rt *rapid.T, n int) []model.StyleSpec {
	out := []model.StyleSpec{{}}
	for i := 0; i < n; i++ {
		out = append(out, Style(rt, "style"))
	}
	return out
}

var classes = []string{"narrow-ascii", "space", "narrow", "combining", "zero", "wide", "emoji", "zwj", "vs16", "modifier", "flag"}

// Grapheme draws a table grapheme, biased toward narrow and wide.
// Only, when non-nil, restricts Grapheme to the listed graphemes.
var Only map[string]bool

func Grapheme(rt *rapid.T, label string) string {
	for {
		g := grapheme(rt, label)
		if Only == nil || Only[g] {
			return g
		}
	}
}

func grapheme(rt *rapid.T, label string) string {
	var class string
	switch rapid.IntRange(0, 11).Draw(rt, label+"-cls") {
	case 0, 1, 2:
		class = "narrow-ascii"
	case 3, 4, 5:
		class = "wide"
	case 6:
		class = "space"
	default:
		class = rapid.SampledFrom(classes).Draw(rt, label+"-class")
	}
	return rapid.SampledFrom(widthtab.ByClass(class)).Draw(rt, label)
}

// Cell draws a cell that is drawable at a position with `room` columns left
// in the row under width method m: its true width fits.  explicitOK allows
// arbitrary explicit widths (the terminal understands OSC 66).
func Cell(rt *rapid.T, styles []model.StyleSpec, m widthtab.Method, room int, explicitOK bool) model.CellSpec {
	st := rapid.SampledFrom(styles).Draw(rt, "cellstyle")
	if rapid.IntRange(0, 9).Draw(rt, "empty?") == 0 {
		return model.CellSpec{Style: st}
	}
	for tries := 0; ; tries++ {
		g := Grapheme(rt, "g")
		w, _ := widthtab.Width(g, m)
		if w > room && tries < 20 {
			continue
		}
		if w > room {
			g, w = "a", 1
		}
		c := model.CellSpec{G: g, Style: st}
		switch rapid.IntRange(0, 5).Draw(rt, "explicit?") {
		case 0:
			if w > 0 {
				c.W = w // explicit, equal to the true width
			}
		case 1:
			if explicitOK && w > 0 && room >= 2 {
				c.W = rapid.IntRange(2, min(3, room)).Draw(rt, "explicit-w")
			}
		}
		return c
	}
}

func min(a, b int) int {
	if a < b {
		return a
	}
	return b
}

var xtversions = []string{"", "", "", "xterm(379)", "kitty(0.31.0)", "tmux 3.4", "foot(1.16.2)"}

// Caps draws an advertised capability set.
func Caps(rt *rapid.T) refterm.Caps {
	var mask uint32
	switch rapid.IntRange(0, 5).Draw(rt, "capmode") {
	case 0:
		mask = 0
	case 1:
		mask = 1<<refterm.NumCaps - 1
	default:
		mask = uint32(rapid.Uint32Range(0, 1<<refterm.NumCaps-1).Draw(rt, "capmask"))
	}
	c := refterm.FromMask(mask)
	c.XTVersion = rapid.SampledFrom(xtversions).Draw(rt, "xtversion")
	c.UserCursorStyle = rapid.IntRange(0, 6).Draw(rt, "usercursor")
	c.AppID = rapid.SampledFrom([]string{"", "orig-app"}).Draw(rt, "appid")
	c.DECRPMAbsent = rapid.SampledFrom([]int{0, 2, 1, 0}).Draw(rt, "decrpm-absent")
	c.TcapNoValue = rapid.IntRange(0, 3).Draw(rt, "tcap-novalue") == 2
	c.KittyInitial = rapid.SampledFrom([]int{0, 1, 0, 3}).Draw(rt, "kitty-initial")
	return c
}
