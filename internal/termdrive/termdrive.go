//go:build verif

// Package termdrive drives the hooked (PTY-less) widgets/term Model.
package termdrive

import (
	"bytes"
	"fmt"
	"os"
	"sync"
	"time"

	vaxis "git.sr.ht/~rockorager/vaxis"
	"git.sr.ht/~rockorager/vaxis/ansi"
	"git.sr.ht/~rockorager/vaxis/widgets/term"
)

type T struct {
	M  *term.Model
	rd *os.File

	mu   sync.Mutex
	out  []byte // what the emulator wrote to its PTY
	Tap  func([]byte)
	done chan struct{}
}

func New(cols, rows int) (*T, error) {
	m, rd, err := term.VerifNew(cols, rows)
	if err != nil {
		return nil, err
	}
	t := &T{M: m, rd: rd, done: make(chan struct{})}
	go func() {
		defer close(t.done)
		buf := make([]byte, 4096)
		for {
			n, err := rd.Read(buf)
			if n > 0 {
				t.mu.Lock()
				t.out = append(t.out, buf[:n]...)
				tap := t.Tap
				t.mu.Unlock()
				if tap != nil {
					tap(append([]byte{}, buf[:n]...))
				}
			}
			if err != nil {
				return
			}
		}
	}()
	return t, nil
}

// Close closes the PTY stand-in.
func (t *T) Close() {
	t.M.Close() // closes the write end
	select {
	case <-t.done:
	case <-time.After(time.Second):
	}
	t.rd.Close()
}

// TakeOutput returns what the emulator has written to its PTY so far. The
// pipe is asynchronous: settle waits briefly for the reader goroutine.
func (t *T) TakeOutput(settle bool) []byte {
	if settle {
		// writes to the pipe complete synchronously; the reader goroutine
		// needs a moment to pick them up
		for i := 0; i < 200; i++ {
			time.Sleep(50 * time.Microsecond)
			t.mu.Lock()
			n := len(t.out)
			t.mu.Unlock()
			if n > 0 && i > 3 {
				break
			}
		}
	}
	t.mu.Lock()
	defer t.mu.Unlock()
	o := t.out
	t.out = nil
	return o
}

// TakeSettled returns everything the emulator has written so far, without
// depending on timing: a status request (DSR 5) is fed to the emulator, whose
// answer goes through the same pipe behind whatever was written before; the
// call returns once the reader goroutine has delivered that answer, which is
// then cut off.
func (t *T) TakeSettled() []byte {
	const marker = "\x1b[0n"
	func() {
		defer func() { _ = recover() }()
		for _, seq := range Parse([]byte("\x1b[5n")) {
			t.M.VerifUpdate(seq)
		}
	}()
	deadline := time.Now().Add(20 * time.Second)
	for {
		t.mu.Lock()
		if i := bytes.LastIndex(t.out, []byte(marker)); i >= 0 && i+len(marker) == len(t.out) {
			o := append([]byte(nil), t.out[:i]...)
			t.out = nil
			t.mu.Unlock()
			return o
		}
		t.mu.Unlock()
		if time.Now().After(deadline) {
			return t.TakeOutput(false)
		}
		time.Sleep(20 * time.Microsecond)
	}
}

// Parse turns child output bytes into sequences with the library's own
// parser, exactly as the PTY goroutine receives them.
func Parse(b []byte) []ansi.Sequence {
	// The whole input is available to the parser at once, so an ESC is always
	// promptly followed by the next byte and the Escape key can never be
	// reported legitimately.  On an overloaded machine the parser's 10 ms
	// wall-clock timer can still fire between two bytes (DESIGN §2.6); such
	// a parse is an artefact of the schedule and is repeated.
	for try := 0; ; try++ {
		out, spurious := parseOnce(b)
		if !spurious || try >= 20 {
			return out
		}
	}
}

func parseOnce(b []byte) (out []ansi.Sequence, spuriousEsc bool) {
	p := ansi.NewParser(bytes.NewReader(b))
	for seq := range p.Next() {
		if _, ok := seq.(ansi.EOF); ok {
			continue
		}
		if c, ok := seq.(ansi.C0); ok && c == 0x1b {
			spuriousEsc = true
		}
		out = append(out, seq)
	}
	return out, spuriousEsc
}

// Feed parses and applies child output; it returns the events raised and the
// panic value if the emulator panicked (with the index of the sequence).
func (t *T) Feed(b []byte) (events []vaxis.Event, panicMsg string) {
	seqs := Parse(b)
	for i, seq := range seqs {
		func() {
			defer func() {
				if r := recover(); r != nil {
					panicMsg = fmt.Sprintf("panic while processing sequence %d (%v): %v", i, seq, r)
				}
			}()
			events = append(events, t.M.VerifFeed(seq)...)
		}()
		if panicMsg != "" {
			return
		}
	}
	return
}
