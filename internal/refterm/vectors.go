package refterm

import (
	"fmt"
	"strings"
)

// Vector pins the reference terminal itself: expectations hand-derived from
// xterm's ctlseqs / the VT510 programmer's manual, not from any code.
type Vector struct {
	Name       string
	Cols, Rows int
	In         string
	Want       []string // one string per row: glyphs, '.' blank, '<' right half of a wide glyph
	Row, Col   int      // cursor, 0-based
	Pending    bool     // deferred wrap
}

var Vectors = []Vector{
	{"print", 4, 2, "ab", []string{"ab..", "...."}, 0, 2, false},
	{"deferred wrap", 3, 2, "abc", []string{"abc", "..."}, 0, 2, true},
	{"wrap on next print", 3, 2, "abcd", []string{"abc", "d.."}, 1, 1, false},
	{"wide fits", 4, 1, "a宽", []string{"a宽<."}, 0, 3, false},
	{"wide wraps early", 3, 2, "ab宽", []string{"ab.", "宽<."}, 1, 2, false},
	{"cr lf", 3, 2, "a\r\nb", []string{"a..", "b.."}, 1, 1, false},
	{"lf keeps column", 3, 2, "a\nb", []string{"a..", ".b."}, 1, 2, false},
	{"lf scrolls at bottom", 2, 2, "a\n\nb", []string{"..", ".b"}, 1, 1, true},
	{"cup default", 3, 3, "\x1b[2;2H\x1b[Hx", []string{"x..", "...", "..."}, 0, 1, false},
	{"cup zero is default", 3, 3, "\x1b[0;0Hx", []string{"x..", "...", "..."}, 0, 1, false},
	{"cup clamps", 3, 2, "\x1b[9;9Hx", []string{"...", "..x"}, 1, 2, true},
	{"cuu stops at row 0", 3, 3, "\x1b[2;1H\x1b[5Ax", []string{"x..", "...", "..."}, 0, 1, false},
	{"cud stops at last row", 3, 3, "\x1b[5Bx", []string{"...", "...", "x.."}, 2, 1, false},
	{"cud zero moves one", 3, 3, "\x1b[0Bx", []string{"...", "x..", "..."}, 1, 1, false},
	{"cuf/cub clamp", 3, 1, "\x1b[9C\x1b[1Dx", []string{".x."}, 0, 2, false},
	{"cnl does not scroll", 2, 2, "a\x1b[5Eb", []string{"a.", "b."}, 1, 1, false},
	{"cpl does not scroll", 2, 2, "\x1b[2;2Ha\x1b[5Fb", []string{"b.", ".a"}, 0, 1, false},
	{"cha vpa", 3, 3, "\x1b[3G\x1b[2dx", []string{"...", "..x", "..."}, 1, 2, true},
	{"el 0", 4, 1, "abcd\x1b[2G\x1b[K", []string{"a..."}, 0, 1, false},
	{"el 1 includes cursor", 4, 1, "abcd\x1b[2G\x1b[1K", []string{"..cd"}, 0, 1, false},
	{"el 2", 4, 1, "abcd\x1b[2G\x1b[2K", []string{"...."}, 0, 1, false},
	{"ed 0", 2, 3, "ab\r\ncd\r\nef\x1b[2;2H\x1b[J", []string{"ab", "c.", ".."}, 1, 1, false},
	{"ed 1", 2, 3, "ab\r\ncd\r\nef\x1b[2;1H\x1b[1J", []string{"..", ".d", "ef"}, 1, 0, false},
	{"ed 2 keeps cursor", 2, 2, "ab\r\ncd\x1b[1;2H\x1b[2J", []string{"..", ".."}, 0, 1, false},
	{"ech", 4, 1, "abcd\x1b[2G\x1b[2X", []string{"a..d"}, 0, 1, false},
	{"ech clamps", 4, 1, "abcd\x1b[3G\x1b[9X", []string{"ab.."}, 0, 2, false},
	{"ich", 4, 1, "abcd\x1b[2G\x1b[2@", []string{"a..b"}, 0, 1, false},
	{"ich more than rest", 4, 1, "abcd\x1b[3G\x1b[9@", []string{"ab.."}, 0, 2, false},
	{"dch", 4, 1, "abcd\x1b[2G\x1b[2P", []string{"ad.."}, 0, 1, false},
	{"dch more than rest", 4, 1, "abcd\x1b[3G\x1b[9P", []string{"ab.."}, 0, 2, false},
	{"il", 2, 3, "ab\r\ncd\r\nef\x1b[2;2H\x1b[L", []string{"ab", "..", "cd"}, 1, 0, false},
	{"il at bottom margin", 2, 3, "ab\r\ncd\r\nef\x1b[3;1H\x1b[2L", []string{"ab", "cd", ".."}, 2, 0, false},
	{"dl", 2, 3, "ab\r\ncd\r\nef\x1b[1;2H\x1b[M", []string{"cd", "ef", ".."}, 0, 0, false},
	{"dl more than rest", 2, 3, "ab\r\ncd\r\nef\x1b[2;1H\x1b[9M", []string{"ab", "..", ".."}, 1, 0, false},
	{"su", 2, 3, "ab\r\ncd\r\nef\x1b[S", []string{"cd", "ef", ".."}, 2, 1, true},
	{"sd", 2, 3, "ab\r\ncd\r\nef\x1b[1;1H\x1b[T", []string{"..", "ab", "cd"}, 0, 0, false},
	{"decstbm homes cursor", 2, 3, "\x1b[3;2H\x1b[1;2rx", []string{"x.", "..", ".."}, 0, 1, false},
	{"decstbm invalid ignored", 2, 3, "\x1b[3;2H\x1b[2;2rx", []string{"..", "..", ".x"}, 2, 1, true},
	{"lf scrolls inside region only", 2, 3, "ab\r\ncd\r\nef\x1b[1;2r\x1b[2;1H\n", []string{"cd", "..", "ef"}, 1, 0, false},
	{"cud stops at bottom margin", 2, 3, "\x1b[1;2r\x1b[5Bx", []string{"..", "x.", ".."}, 1, 1, false},
	{"cud below region goes to last row", 2, 4, "\x1b[1;2r\x1b[3;1H\x1b[5Bx", []string{"..", "..", "..", "x."}, 3, 1, false},
	{"ri at top margin scrolls down", 2, 3, "ab\r\ncd\r\nef\x1b[2;3r\x1b[2;1H\x1bM", []string{"ab", "..", "cd"}, 1, 0, false},
	{"ri at row 0 above region stays", 2, 3, "\x1b[2;3r\x1b[1;1H\x1bMx", []string{"x.", "..", ".."}, 0, 1, false},
	{"nel", 3, 2, "ab\x1bEc", []string{"ab.", "c.."}, 1, 1, false},
	{"decsc decrc", 3, 2, "a\x1b7\r\nbc\x1b8x", []string{"ax.", "bc."}, 0, 2, false},
	{"1049 enters a cleared alt screen and restores", 2, 2, "ab\x1b[?1049hx\x1b[?1049l", []string{"ab", ".."}, 0, 1, true},
	{"alt screen is cleared on every entry", 2, 2, "\x1b[?1049hxy\x1b[?1049l\x1b[?1049h", []string{"..", ".."}, 0, 0, false},
	{"ich at the left half moves the wide glyph", 4, 1, "宽ab\x1b[1G\x1b[@", []string{".宽<a"}, 0, 0, false},
	{"ich at the right half splits the wide glyph", 4, 1, "宽ab\x1b[2G\x1b[@", []string{"...a"}, 0, 1, false},
	{"ich pushes a wide glyph half over the edge", 3, 1, "a宽\x1b[1G\x1b[@", []string{".a."}, 0, 0, false},
	{"dch from the right half", 4, 1, "宽ab\x1b[2G\x1b[P", []string{".ab."}, 0, 1, false},
	{"ech on the right half", 4, 1, "宽ab\x1b[2G\x1b[X", []string{"..ab"}, 0, 1, false},
	{"overwrite right half of wide blanks the left", 3, 1, "宽\x1b[2Ga", []string{".a."}, 0, 2, false},
	{"overwrite left half of wide blanks the right", 3, 1, "宽\x1b[1Ga", []string{"a.."}, 0, 1, false},
}

// RunVector checks one vector; "" = ok.
func RunVector(v Vector) string {
	t := New(v.Cols, v.Rows, Caps{})
	t.Method = 2
	_, _ = t.Write([]byte(v.In))
	for r := 0; r < v.Rows; r++ {
		var sb strings.Builder
		for c := 0; c < v.Cols; c++ {
			cell := t.cur.cells[r][c]
			switch {
			case cell.W == 0:
				sb.WriteByte('<')
			case cell.G == "" || cell.G == " ":
				sb.WriteByte('.')
			default:
				sb.WriteString(cell.G)
			}
		}
		if sb.String() != v.Want[r] {
			return fmt.Sprintf("row %d is %q, want %q", r, sb.String(), v.Want[r])
		}
	}
	if t.C.Row != v.Row || t.C.Col != v.Col || t.PendingWrap != v.Pending {
		return fmt.Sprintf("cursor (%d,%d) pending=%v, want (%d,%d) pending=%v", t.C.Row, t.C.Col, t.PendingWrap, v.Row, v.Col, v.Pending)
	}
	return ""
}
