package refterm

import (
	"encoding/base64"
	"encoding/hex"
	"fmt"
	"strconv"
	"strings"

	"verif/internal/vtref"
)

func (t *Term) osc(payload string) {
	num := payload
	rest := ""
	if i := strings.IndexByte(payload, ';'); i >= 0 {
		num, rest = payload[:i], payload[i+1:]
	}
	switch num {
	case "0", "2":
		t.Title = rest
		t.log("baseline", "OSC %s title", num)
	case "8":
		t.log("baseline", "OSC 8")
		params, uri := "", rest
		if i := strings.IndexByte(rest, ';'); i >= 0 {
			params, uri = rest[:i], rest[i+1:]
		}
		if uri == "" {
			t.Pen.Link, t.Pen.LinkParams = "", ""
		} else {
			t.Pen.Link, t.Pen.LinkParams = uri, params
		}
	case "4":
		parts := strings.Split(rest, ";")
		if len(parts) == 2 && parts[1] == "?" {
			t.log(map[bool]string{true: "query", false: "gated:osc4"}[t.phase == 0], "OSC 4 query")
			if t.Caps.OSC4 {
				idx, _ := strconv.Atoi(parts[0])
				r, g, b := Palette(idx)
				t.send("osc4", fmt.Sprintf("\x1b]4;%d;%s\x1b\\", idx, t.colorSpec(int(r), int(g), int(b))))
			}
		} else {
			t.unknown("OSC 4 set")
		}
	case "10", "11":
		if rest == "?" {
			t.log(map[bool]string{true: "query", false: "gated:osc" + num}[t.phase == 0], "OSC %s query", num)
			ok := t.Caps.OSC10
			col := t.colorSpec(0xd0, 0xd0, 0xd0)
			if num == "11" {
				ok = t.Caps.OSC11
				col = t.colorSpec(0x10, 0x20, 0x30)
			}
			if ok {
				t.send("osc"+num, "\x1b]"+num+";"+col+"\x1b\\")
			}
		} else {
			t.unknown("OSC %s set", num)
		}
	case "22":
		t.PointerShape = rest
		t.log("baseline", "OSC 22 %s", rest)
	case "52":
		parts := strings.Split(rest, ";")
		if len(parts) == 2 && parts[1] == "?" {
			t.log("baseline", "OSC 52 query")
			if t.Caps.OSC52 {
				t.send("osc52", "\x1b]52;c;"+base64.StdEncoding.EncodeToString([]byte(t.Caps.Clipboard))+"\x1b\\")
			}
		} else if len(parts) == 2 {
			t.log("baseline", "OSC 52 set")
			if b, err := base64.StdEncoding.DecodeString(parts[1]); err == nil {
				t.Clip = append(t.Clip, string(b))
			}
		}
	case "66":
		t.log("gated:explicit-width", "OSC 66")
		meta, text := rest, ""
		if i := strings.IndexByte(rest, ';'); i >= 0 {
			meta, text = rest[:i], rest[i+1:]
		}
		if !t.Caps.ExplicitWidth {
			// a terminal without OSC 66 ignores the whole string
			return
		}
		w := 0
		for _, kv := range strings.Split(meta, ":") {
			if strings.HasPrefix(kv, "w=") {
				w, _ = strconv.Atoi(kv[2:])
			}
		}
		t.printText(text, w)
	case "176":
		if rest == "?" {
			t.log(map[bool]string{true: "query", false: "gated:app-id"}[t.phase == 0], "OSC 176 query")
			if t.Caps.OSC176 {
				t.send("osc176", "\x1b]176;"+t.AppID+"\x1b\\")
			}
		} else {
			t.log("gated:app-id", "OSC 176 set")
			if t.Caps.OSC176 {
				t.AppID = rest
			}
		}
	case "9", "777":
		t.Notifies = append(t.Notifies, payload)
		t.log("baseline", "OSC %s notify", num)
	default:
		t.unknown("OSC %s", num)
	}
}

func (t *Term) dcs(it vtref.Item) {
	inter := string(it.Inter)
	data := string(it.Data)
	switch {
	case inter == "+" && it.Code == 'q': // XTGETTCAP
		t.log("query", "XTGETTCAP %s", data)
		name, _ := hex.DecodeString(data)
		ok := false
		val := ""
		switch string(name) {
		case "RGB":
			ok, val = t.Caps.RGB, "8/8/8"
		case "Smulx":
			ok, val = t.Caps.Smulx, "\x1b[4:%p1%dm"
		}
		if ok && t.Caps.TcapNoValue {
			t.send("xtgettcap", "\x1bP1+r"+data+"\x1b\\")
		} else if ok {
			t.send("xtgettcap", "\x1bP1+r"+data+"="+strings.ToUpper(hex.EncodeToString([]byte(val)))+"\x1b\\")
		} else if t.Caps.RGB || t.Caps.Smulx || t.Caps.DECRPMAbsent != 0 {
			// a terminal that implements XTGETTCAP answers unknown names with 0+r
			t.send("xtgettcap", "\x1bP0+r"+data+"\x1b\\")
		}
	case inter == "$" && it.Code == 'q': // DECRQSS
		t.log("query", "DECRQSS %q", data)
		if data == " q" && t.Caps.DECRQSSCursor {
			t.send("decrqss", fmt.Sprintf("\x1bP1$r%d q\x1b\\", t.Caps.UserCursorStyle))
		}
	case inter == "" && it.Code == 'q': // sixel
		t.log("gated:sixel", "sixel DCS (%d bytes)", len(data))
		t.Graphics = append(t.Graphics, GfxOp{Proto: "sixel", Row: t.C.Row, Col: t.C.Col, Bytes: len(data)})
	default:
		t.unknown("DCS %s %c", inter, it.Code)
	}
}

func (t *Term) apc(data string) {
	if !strings.HasPrefix(data, "G") {
		t.unknown("APC %.10q", data)
		return
	}
	body := data[1:]
	ctrl := body
	payload := ""
	if i := strings.IndexByte(body, ';'); i >= 0 {
		ctrl, payload = body[:i], body[i+1:]
	}
	keys := map[string]string{}
	for _, kv := range strings.Split(ctrl, ",") {
		if i := strings.IndexByte(kv, '='); i > 0 {
			keys[kv[:i]] = kv[i+1:]
		}
	}
	if keys["a"] == "q" {
		t.log("query", "kitty graphics query")
		if t.Caps.KittyGfx {
			t.send("kittygfx", "\x1b_Gi="+keys["i"]+";OK\x1b\\")
		}
		return
	}
	t.log("gated:kitty-graphics", "APC G a=%s", keys["a"])
	t.Graphics = append(t.Graphics, GfxOp{Proto: "kitty", Keys: keys, Row: t.C.Row, Col: t.C.Col, Bytes: len(payload)})
}

// Palette returns the conventional xterm 256-colour palette entry.
func Palette(i int) (r, g, b uint8) {
	base := [16][3]uint8{{0, 0, 0}, {205, 0, 0}, {0, 205, 0}, {205, 205, 0}, {0, 0, 238}, {205, 0, 205}, {0, 205, 205}, {229, 229, 229},
		{127, 127, 127}, {255, 0, 0}, {0, 255, 0}, {255, 255, 0}, {92, 92, 255}, {255, 0, 255}, {0, 255, 255}, {255, 255, 255}}
	switch {
	case i < 0 || i > 255:
		return 0, 0, 0
	case i < 16:
		return base[i][0], base[i][1], base[i][2]
	case i < 232:
		i -= 16
		lv := [6]uint8{0, 0x5f, 0x87, 0xaf, 0xd7, 0xff}
		return lv[i/36], lv[(i/6)%6], lv[i%6]
	default:
		v := uint8(8 + 10*(i-232))
		return v, v, v
	}
}

// colorSpec formats a colour the way this terminal reports colours.
func (t *Term) colorSpec(r, g, b int) string {
	if t.Caps.ColorDigits == 2 {
		return fmt.Sprintf("rgb:%02x/%02x/%02x", r, g, b)
	}
	return fmt.Sprintf("rgb:%02x%02x/%02x%02x/%02x%02x", r, r, g, g, b, b)
}
