package refterm

import (
	"fmt"
	"sort"
	"strings"
)

// Projection is the part of the terminal's state that an application is
// expected to restore (C04).  Modes the terminal does not implement (not
// advertised) do not exist and are not part of it.
type Projection struct {
	Alt           bool
	CursorVisible bool
	CursorShape   int // normalised: 0 ("default") stands for the user's configured shape
	DECCKM        bool
	KeypadApp     bool
	Mouse         string // which of 1000/1002/1003/1004/1005/1006/1015/1016 are set
	Paste2004     bool
	KittyStack    string
	PoppedEmpty   bool
	Unicode2027   bool
	SyncDepth     int
	Color2031     bool
	InBand2048    bool
	Sixel8452     bool
	Pointer       string
	Pen           Style
	AppID         string
	Autowrap      bool
	Insert        bool
}

func (t *Term) Projection() Projection {
	t.mu.Lock()
	defer t.mu.Unlock()
	p := Projection{
		Alt:           t.Alt,
		CursorVisible: t.C.Visible,
		CursorShape:   t.C.Shape,
		DECCKM:        t.DecModes[1],
		KeypadApp:     t.KeypadApp,
		Paste2004:     t.DecModes[2004],
		KittyStack:    fmt.Sprint(t.KittyStack),
		PoppedEmpty:   t.DecModes[-1000],
		SyncDepth:     t.SyncDepth,
		Pointer:       t.PointerShape,
		Pen:           t.Pen,
		AppID:         t.AppID,
		Autowrap:      t.Autowrap,
		Insert:        t.Insert,
	}
	if p.CursorShape == t.Caps.UserCursorStyle {
		p.CursorShape = 0
	}
	var mouse []string
	for _, m := range []int{9, 1000, 1001, 1002, 1003, 1004, 1005, 1006, 1015, 1016} {
		if t.DecModes[m] {
			mouse = append(mouse, fmt.Sprint(m))
		}
	}
	sort.Strings(mouse)
	p.Mouse = strings.Join(mouse, ",")
	if t.Caps.Unicode2027 {
		p.Unicode2027 = t.DecModes[2027]
	}
	if t.Caps.Color2031 {
		p.Color2031 = t.DecModes[2031]
	}
	if t.Caps.InBand2048 {
		p.InBand2048 = t.DecModes[2048]
	}
	if t.Caps.SixelDA1 || t.Caps.XTSM {
		p.Sixel8452 = t.DecModes[8452]
	}
	if !t.Caps.Sync2026 {
		p.SyncDepth = 0
	}
	if !t.Caps.KittyKbd {
		p.KittyStack, p.PoppedEmpty = "[]", false
	}
	return p
}

// Diff describes the first differences between two projections.
func (p Projection) Diff(q Projection) string {
	var d []string
	add := func(name string, a, b any) {
		if fmt.Sprint(a) != fmt.Sprint(b) {
			d = append(d, fmt.Sprintf("%s: %v, was %v", name, a, b))
		}
	}
	add("alternate screen", p.Alt, q.Alt)
	add("cursor visible", p.CursorVisible, q.CursorVisible)
	add("cursor shape", p.CursorShape, q.CursorShape)
	add("cursor-key mode (DECCKM)", p.DECCKM, q.DECCKM)
	add("application keypad", p.KeypadApp, q.KeypadApp)
	add("mouse/focus reporting modes", p.Mouse, q.Mouse)
	add("bracketed paste", p.Paste2004, q.Paste2004)
	add("kitty keyboard stack", p.KittyStack, q.KittyStack)
	add("kitty keyboard popped below prior level", p.PoppedEmpty, q.PoppedEmpty)
	add("unicode core 2027", p.Unicode2027, q.Unicode2027)
	add("synchronized output depth", p.SyncDepth, q.SyncDepth)
	add("colour-scheme reports 2031", p.Color2031, q.Color2031)
	add("in-band resize 2048", p.InBand2048, q.InBand2048)
	add("sixel scrolling 8452", p.Sixel8452, q.Sixel8452)
	add("pointer shape", p.Pointer, q.Pointer)
	add("SGR state/hyperlink", p.Pen, q.Pen)
	add("application id", p.AppID, q.AppID)
	add("autowrap", p.Autowrap, q.Autowrap)
	add("insert mode", p.Insert, q.Insert)
	return strings.Join(d, "; ")
}
