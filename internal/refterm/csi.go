package refterm

import (
	"fmt"
	"strings"

	"verif/internal/vtref"
)

func fmtCSI(it vtref.Item) string {
	var sb strings.Builder
	sb.WriteString("CSI ")
	priv := ""
	inter := ""
	for _, r := range it.Inter {
		if r >= 0x3c && r <= 0x3f {
			priv += string(r)
		} else {
			inter += string(r)
		}
	}
	sb.WriteString(priv)
	for i, p := range it.Params {
		if i > 0 {
			sb.WriteByte(';')
		}
		for j, v := range p {
			if j > 0 {
				sb.WriteByte(':')
			}
			fmt.Fprintf(&sb, "%d", v)
		}
	}
	sb.WriteString(inter)
	sb.WriteRune(it.Code)
	return sb.String()
}

// param i with default d (0 or missing means default)
func par(it vtref.Item, i, d int) int {
	if i < len(it.Params) && len(it.Params[i]) > 0 && it.Params[i][0] != 0 {
		return it.Params[i][0]
	}
	return d
}

func rawPar(it vtref.Item, i int) int {
	if i < len(it.Params) && len(it.Params[i]) > 0 {
		return it.Params[i][0]
	}
	return 0
}

func (t *Term) csi(it vtref.Item) {
	priv, inter := "", ""
	for _, r := range it.Inter {
		if r >= 0x3c && r <= 0x3f {
			priv += string(r)
		} else {
			inter += string(r)
		}
	}
	key := priv + inter + string(it.Code)
	cells := t.cur.cells
	switch key {
	case "@": // ICH
		t.PendingWrap = false
		t.insertBlank(par(it, 0, 1))
	case "A": // CUU
		t.PendingWrap = false
		n := par(it, 0, 1)
		lim := 0
		if t.C.Row >= t.Top {
			lim = t.Top
		}
		t.C.Row = clamp(t.C.Row-n, lim, t.Rows-1)
	case "B", "e": // CUD, VPR
		t.PendingWrap = false
		n := par(it, 0, 1)
		lim := t.Rows - 1
		if t.C.Row <= t.Bottom && it.Code == 'B' {
			lim = t.Bottom
		}
		t.C.Row = clamp(t.C.Row+n, 0, lim)
	case "C", "a": // CUF, HPR
		t.PendingWrap = false
		t.C.Col = clamp(t.C.Col+par(it, 0, 1), 0, t.Cols-1)
	case "D": // CUB
		t.PendingWrap = false
		t.C.Col = clamp(t.C.Col-par(it, 0, 1), 0, t.Cols-1)
	case "E": // CNL
		t.PendingWrap = false
		n := par(it, 0, 1)
		lim := t.Rows - 1
		if t.C.Row <= t.Bottom {
			lim = t.Bottom
		}
		t.C.Row = clamp(t.C.Row+n, 0, lim)
		t.C.Col = 0
	case "F": // CPL
		t.PendingWrap = false
		n := par(it, 0, 1)
		lim := 0
		if t.C.Row >= t.Top {
			lim = t.Top
		}
		t.C.Row = clamp(t.C.Row-n, lim, t.Rows-1)
		t.C.Col = 0
	case "G", "`": // CHA, HPA
		t.PendingWrap = false
		t.C.Col = clamp(par(it, 0, 1)-1, 0, t.Cols-1)
	case "H", "f": // CUP, HVP
		t.PendingWrap = false
		t.C.Row = clamp(par(it, 0, 1)-1, 0, t.Rows-1)
		t.C.Col = clamp(par(it, 1, 1)-1, 0, t.Cols-1)
	case "d": // VPA
		t.PendingWrap = false
		t.C.Row = clamp(par(it, 0, 1)-1, 0, t.Rows-1)
	case "J": // ED
		t.PendingWrap = false
		switch rawPar(it, 0) {
		case 0:
			t.eraseCells(t.C.Row, t.C.Col, t.Cols)
			for r := t.C.Row + 1; r < t.Rows; r++ {
				cells[r] = blankRow(t.Cols, t.eraseStyle())
			}
		case 1:
			for r := 0; r < t.C.Row; r++ {
				cells[r] = blankRow(t.Cols, t.eraseStyle())
			}
			t.eraseCells(t.C.Row, 0, t.C.Col+1)
		case 2, 3:
			for r := 0; r < t.Rows; r++ {
				cells[r] = blankRow(t.Cols, t.eraseStyle())
			}
		}
	case "K": // EL
		t.PendingWrap = false
		switch rawPar(it, 0) {
		case 0:
			t.eraseCells(t.C.Row, t.C.Col, t.Cols)
		case 1:
			t.eraseCells(t.C.Row, 0, t.C.Col+1)
		case 2:
			t.eraseCells(t.C.Row, 0, t.Cols)
		}
	case "L": // IL
		t.PendingWrap = false
		if t.C.Row >= t.Top && t.C.Row <= t.Bottom {
			n := par(it, 0, 1)
			if n > t.Bottom-t.C.Row+1 {
				n = t.Bottom - t.C.Row + 1
			}
			for ; n > 0; n-- {
				for r := t.Bottom; r > t.C.Row; r-- {
					cells[r] = cells[r-1]
				}
				cells[t.C.Row] = blankRow(t.Cols, t.eraseStyle())
			}
			t.C.Col = 0
		}
	case "M": // DL
		t.PendingWrap = false
		if t.C.Row >= t.Top && t.C.Row <= t.Bottom {
			n := par(it, 0, 1)
			if n > t.Bottom-t.C.Row+1 {
				n = t.Bottom - t.C.Row + 1
			}
			for ; n > 0; n-- {
				for r := t.C.Row; r < t.Bottom; r++ {
					cells[r] = cells[r+1]
				}
				cells[t.Bottom] = blankRow(t.Cols, t.eraseStyle())
			}
			t.C.Col = 0
		}
	case "P": // DCH
		t.PendingWrap = false
		t.deleteChars(par(it, 0, 1))
	case "S": // SU
		n := par(it, 0, 1)
		if n > t.Bottom-t.Top+1 {
			n = t.Bottom - t.Top + 1
		}
		t.scrollUp(n)
	case "T": // SD
		n := par(it, 0, 1)
		if n > t.Bottom-t.Top+1 {
			n = t.Bottom - t.Top + 1
		}
		t.scrollDown(n)
	case "X": // ECH
		t.PendingWrap = false
		t.eraseCells(t.C.Row, t.C.Col, t.C.Col+par(it, 0, 1))
	case "r": // DECSTBM
		top := par(it, 0, 1)
		bot := par(it, 1, t.Rows)
		if bot > t.Rows {
			bot = t.Rows
		}
		if top < bot {
			t.Top, t.Bottom = top-1, bot-1
			t.C.Row, t.C.Col = 0, 0
			t.PendingWrap = false
		}
	case "m":
		t.sgr(it)
	case "h", "l":
		set := it.Code == 'h'
		for i := range it.Params {
			switch rawPar(it, i) {
			case 4:
				t.Insert = set
			case 20:
				t.DecModes[-20] = set
			default:
				t.unknown("%s", fmtCSI(it))
			}
		}
	case "?h", "?l":
		for i := range it.Params {
			t.decMode(rawPar(it, i), it.Code == 'h')
		}
	case "n":
		if rawPar(it, 0) == 6 {
			t.log("query", "DSR 6")
			t.send("cpr", fmt.Sprintf("\x1b[%d;%dR", t.C.Row+1, t.C.Col+1))
		} else {
			t.unknown("%s", fmtCSI(it))
		}
	case "?n":
		if rawPar(it, 0) == 996 {
			t.log(t.gate(t.Caps.Color2031, "color-scheme-reports"), "DSR ?996")
			if t.Caps.Color2031 {
				t.send("dsr996", "\x1b[?997;1n")
			}
		} else {
			t.unknown("%s", fmtCSI(it))
		}
	case "c":
		t.log("query", "DA1")
		if t.phase == 0 {
			t.phase = 1
		}
		if t.Caps.SixelDA1 {
			t.send("da1", "\x1b[?62;4;22c")
		} else {
			t.send("da1", "\x1b[?62;22c")
		}
	case ">c":
		t.log("query", "DA2")
		t.send("da2", "\x1b[>1;10;0c")
	case "=c":
		t.log("query", "DA3")
		if t.Caps.VTE {
			t.send("da3", "\x1bP!|7E565445\x1b\\")
		}
	case " q": // DECSCUSR
		t.C.Shape = rawPar(it, 0)
		t.log("baseline", "DECSCUSR %d", t.C.Shape)
	case ">q":
		t.log("query", "XTVERSION")
		if t.Caps.XTVersion != "" {
			t.send("xtversion", "\x1bP>|"+t.Caps.XTVersion+"\x1b\\")
		}
	case "?u":
		t.log("query", "kitty keyboard query")
		if t.Caps.KittyKbd {
			cur := 0
			if len(t.KittyStack) > 0 {
				cur = t.KittyStack[len(t.KittyStack)-1]
			}
			t.send("kittykbd", fmt.Sprintf("\x1b[?%du", cur))
		}
	case ">u":
		t.log(t.gate(t.Caps.KittyKbd, "kitty-keyboard"), "kitty keyboard push %d", rawPar(it, 0))
		t.KittyStack = append(t.KittyStack, rawPar(it, 0))
	case "<u":
		t.log(t.gate(t.Caps.KittyKbd, "kitty-keyboard"), "kitty keyboard pop")
		n := par(it, 0, 1)
		for ; n > 0 && len(t.KittyStack) > 0; n-- {
			t.KittyStack = t.KittyStack[:len(t.KittyStack)-1]
		}
		if n > 0 {
			// popping an empty stack: harmless on kitty, but it means the
			// application restored more than it set
			t.DecModes[-1000] = true
		}
	case "?$p": // DECRQM
		mode := rawPar(it, 0)
		t.log("query", "DECRQM ?%d", mode)
		status := -1
		switch mode {
		case 2026:
			if t.Caps.Sync2026 {
				status = 2
			}
		case 2027:
			if t.Caps.Unicode2027 {
				status = 2
				if t.DecModes[2027] {
					status = 1
				}
			}
		case 2031:
			if t.Caps.Color2031 {
				status = 2
			}
		}
		if status >= 0 {
			t.send("decrpm", fmt.Sprintf("\x1b[?%d;%d$y", mode, status))
		} else if t.Caps.DECRPMAbsent == 1 {
			t.send("decrpm", fmt.Sprintf("\x1b[?%d;0$y", mode))
		} else if t.Caps.DECRPMAbsent == 2 {
			t.send("decrpm", fmt.Sprintf("\x1b[?%d;4$y", mode))
		}
	case "t":
		switch rawPar(it, 0) {
		case 14:
			t.log("query", "XTWINOPS 14")
			if t.Caps.Size14t {
				t.send("size14", fmt.Sprintf("\x1b[4;%d;%dt", t.Rows*t.cellH(), t.Cols*t.cellW()))
			}
		case 18:
			t.log("query", "XTWINOPS 18")
			if t.Caps.Size18t {
				t.send("size18", fmt.Sprintf("\x1b[8;%d;%dt", t.Rows, t.Cols))
			}
		default:
			t.unknown("%s", fmtCSI(it))
		}
	case "?S":
		t.log("query", "XTSMGRAPHICS")
		if t.Caps.XTSM {
			t.send("xtsm", fmt.Sprintf("\x1b[?%d;0;%dS", rawPar(it, 0), 256))
		} else if t.Caps.DECRPMAbsent != 0 {
			// a terminal that knows XTSMGRAPHICS but has no sixel support
			// answers with an error status (1 = error in Pi, 3 = failure)
			t.send("xtsm", fmt.Sprintf("\x1b[?%d;%d;0S", rawPar(it, 0), 2*t.Caps.DECRPMAbsent-1))
		}
	case "s":
		t.cur.saved = savedCursor{row: t.C.Row, col: t.C.Col, pen: t.Pen, wrap: t.PendingWrap, set: true}
	case "u":
		s := t.cur.saved
		if s.set {
			t.C.Row, t.C.Col = clamp(s.row, 0, t.Rows-1), clamp(s.col, 0, t.Cols-1)
			t.PendingWrap = false
		}
	case "g": // TBC
		switch rawPar(it, 0) {
		case 0:
			t.tabs[t.C.Col] = false
		case 3:
			for c := 0; c < t.Cols; c++ {
				t.tabs[c] = false
			}
		}
	default:
		t.unknown("%s", fmtCSI(it))
	}
}

func (t *Term) cellW() int {
	if t.Caps.CellW > 0 {
		return t.Caps.CellW
	}
	return 8
}

func (t *Term) cellH() int {
	if t.Caps.CellH > 0 {
		return t.Caps.CellH
	}
	return 16
}

func (t *Term) gate(advertised bool, name string) string {
	_ = advertised
	return "gated:" + name
}

func (t *Term) decMode(mode int, set bool) {
	name := fmt.Sprintf("DEC%s ?%d", map[bool]string{true: "SET", false: "RST"}[set], mode)
	switch mode {
	case 1, 7, 12, 25, 1000, 1002, 1003, 1004, 1005, 1006, 1015, 2004, 47, 1047, 1048, 1049, 6, 5, 3, 66, 67, 69, 1007, 1016:
		t.log("baseline", "%s", name)
	case 2026:
		t.log("gated:synchronized-output", "%s", name)
	case 2027:
		t.log("gated:unicode-core", "%s", name)
	case 2031:
		t.log("gated:color-scheme-reports", "%s", name)
	case 2048:
		if t.phase == 0 {
			t.log("query", "%s (probe)", name)
		} else {
			t.log("gated:in-band-resize", "%s", name)
		}
	case 8452:
		t.log("gated:sixel", "%s", name)
	default:
		t.unknown("%s", name)
	}
	switch mode {
	case 25:
		t.C.Visible = set
		t.DecModes[25] = set
	case 7:
		t.Autowrap = set
		t.DecModes[7] = set
	case 1049, 1047, 47:
		// xterm (charproc.c, srm_OPT_ALTBUF_CURSOR): set = CursorSave,
		// ToAlternate, ClearScreen; reset = FromAlternate, CursorRestore —
		// whether or not the screen actually changes.
		if set {
			if mode == 1049 {
				t.cur.saved = savedCursor{row: t.C.Row, col: t.C.Col, pen: t.Pen, wrap: t.PendingWrap, set: true}
			}
			if !t.Alt {
				t.cur = t.alt
				t.Alt = true
				t.KittyStack, t.kittyOther = t.kittyOther, t.KittyStack
			}
			if mode == 1049 {
				for r := range t.cur.cells {
					t.cur.cells[r] = blankRow(t.Cols, t.eraseStyle())
				}
			}
		} else {
			if t.Alt {
				t.cur = t.primary
				t.Alt = false
				t.KittyStack, t.kittyOther = t.kittyOther, t.KittyStack
			}
			if mode == 1049 {
				s := t.primary.saved
				link, lp := t.Pen.Link, t.Pen.LinkParams
				if s.set {
					t.C.Row, t.C.Col = clamp(s.row, 0, t.Rows-1), clamp(s.col, 0, t.Cols-1)
					t.Pen = s.pen
					t.PendingWrap = s.wrap
				} else {
					t.C.Row, t.C.Col = 0, 0
					t.Pen = Style{}
					t.PendingWrap = false
				}
				t.Pen.Link, t.Pen.LinkParams = link, lp
			}
		}
		t.DecModes[1049] = t.Alt
	case 2026:
		if set {
			t.SyncDepth++
			if t.SyncDepth > t.SyncMax {
				t.SyncMax = t.SyncDepth
			}
		} else {
			t.SyncDepth--
			if t.SyncDepth < t.SyncMin {
				t.SyncMin = t.SyncDepth
			}
		}
		t.DecModes[2026] = t.SyncDepth > 0
	case 2048:
		t.DecModes[2048] = set
		if set && t.Caps.InBand2048 {
			t.send("inband", fmt.Sprintf("\x1b[48;%d;%d;%d;%dt", t.Rows, t.Cols, t.Rows*t.cellH(), t.Cols*t.cellW()))
		}
	default:
		t.DecModes[mode] = set
	}
}

// NotifyResize sends the in-band resize report if the mode is on.
func (t *Term) NotifyResize() {
	t.mu.Lock()
	on := t.DecModes[2048] && t.Caps.InBand2048
	msg := fmt.Sprintf("\x1b[48;%d;%d;%d;%dt", t.Rows, t.Cols, t.Rows*t.cellH(), t.Cols*t.cellW())
	reply := t.Reply
	t.mu.Unlock()
	if on && reply != nil {
		reply([]byte(msg))
	}
}
