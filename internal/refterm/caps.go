package refterm

// Caps is what this terminal advertises in its replies (DESIGN.md §2.2 c).
type Caps struct {
	RGB             bool // answers XTGETTCAP RGB
	Smulx           bool // answers XTGETTCAP Smulx
	VTE             bool // tertiary DA reply "~VTE"
	Sync2026        bool // DECRQM 2026 -> supported
	Unicode2027     bool // DECRQM 2027 -> supported
	Color2031       bool // DECRQM 2031 -> supported, DSR 996 answered
	InBand2048      bool // answers ?2048h with CSI 48 ; ... t
	KittyKbd        bool // answers CSI ? u
	KittyGfx        bool // answers APC G queries
	SixelDA1        bool // 4 in DA1
	XTSM            bool // XTSMGRAPHICS answered with status 0
	OSC4            bool
	OSC10           bool
	OSC11           bool
	OSC176          bool
	AppID           string // application id before Vaxis starts
	XTVersion       string // "" = no reply
	ExplicitWidth   bool   // OSC 66 understood
	Size14t         bool
	Size18t         bool
	DECRQSSCursor   bool
	UserCursorStyle int
	CellW, CellH    int
	// DECRPMAbsent: how a DECRQM for a mode this terminal does not offer is
	// answered: 0 = not at all, 1 = status 0 (not recognised), 2 = status 4
	// (permanently reset: the mode is known and can never be set). None of
	// them advertises the feature. A non-zero value also makes the terminal
	// answer the other queries that have a negative form negatively instead of
	// staying silent: XTSMGRAPHICS with an error status, XTGETTCAP with 0+r.
	DECRPMAbsent int
	// KittyInitial: keyboard flags already pushed on the main screen's stack
	// before Vaxis starts (a shell that uses the protocol); 0 = none
	KittyInitial int
	// TcapNoValue: a positive XTGETTCAP reply carries the capability name
	// only (DCS 1 + r <name> ST), the form terminals use for boolean
	// capabilities, instead of <name>=<value>
	TcapNoValue bool
	OSC52       bool
	Clipboard   string
	// ColorDigits: hex digits per channel in colour replies; 0 or 4 = the
	// usual doubled form (rgb:1a1a/2b2b/3c3c), 2 = rgb:1a/2b/3c (X11 allows 1-4)
	ColorDigits int
}

// Bits lists the boolean capabilities in a fixed order for enumeration.
var CapNames = []string{"RGB", "Smulx", "VTE", "Sync2026", "Unicode2027", "Color2031", "InBand2048", "KittyKbd", "KittyGfx", "SixelDA1", "XTSM", "OSC4", "OSC10", "OSC11", "OSC176", "ExplicitWidth", "Size14t", "Size18t", "DECRQSSCursor"}

// FromMask builds a capability set from a bit mask over CapNames.
func FromMask(m uint32) Caps {
	var c Caps
	set := []*bool{&c.RGB, &c.Smulx, &c.VTE, &c.Sync2026, &c.Unicode2027, &c.Color2031, &c.InBand2048, &c.KittyKbd, &c.KittyGfx, &c.SixelDA1, &c.XTSM, &c.OSC4, &c.OSC10, &c.OSC11, &c.OSC176, &c.ExplicitWidth, &c.Size14t, &c.Size18t, &c.DECRQSSCursor}
	for i, p := range set {
		*p = m&(1<<uint(i)) != 0
	}
	return c
}

func (c Caps) Mask() uint32 {
	var m uint32
	for i, b := range []bool{c.RGB, c.Smulx, c.VTE, c.Sync2026, c.Unicode2027, c.Color2031, c.InBand2048, c.KittyKbd, c.KittyGfx, c.SixelDA1, c.XTSM, c.OSC4, c.OSC10, c.OSC11, c.OSC176, c.ExplicitWidth, c.Size14t, c.Size18t, c.DECRQSSCursor} {
		if b {
			m |= 1 << uint(i)
		}
	}
	return m
}

const NumCaps = 19

func Full() Caps {
	c := FromMask(1<<NumCaps - 1)
	return c
}
