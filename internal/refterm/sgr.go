package refterm

import "verif/internal/vtref"

// sgr applies an SGR sequence to the pen.  Extended colours are accepted in
// the colon form (38:2::r:g:b, 38:2:r:g:b, 38:5:n) and the legacy semicolon
// form (38;2;r;g;b, 38;5;n); a truncated extended colour ends the sequence
// (xterm ignores the remainder).
func (t *Term) sgr(it vtref.Item) {
	ps := it.Params
	if len(ps) == 0 {
		ps = [][]int{{0}}
	}
	p := &t.Pen
	for i := 0; i < len(ps); i++ {
		q := ps[i]
		code := q[0]
		switch {
		case code == 0:
			link, lp := p.Link, p.LinkParams
			*p = Style{Link: link, LinkParams: lp}
		case code == 1:
			p.Attrs |= ABold
		case code == 2:
			p.Attrs |= ADim
		case code == 3:
			p.Attrs |= AItalic
		case code == 4:
			if len(q) >= 2 {
				t.log("gated:styled-underlines", "SGR 4:%d", q[1])
				if q[1] >= 0 && q[1] <= 5 {
					p.UlStyle = uint8(q[1])
				}
			} else {
				p.UlStyle = 1
			}
		case code == 5, code == 6:
			p.Attrs |= ABlink
		case code == 7:
			p.Attrs |= AReverse
		case code == 8:
			p.Attrs |= AInvisible
		case code == 9:
			p.Attrs |= AStrike
		case code == 21:
			p.UlStyle = 2
		case code == 22:
			p.Attrs &^= ABold | ADim
		case code == 23:
			p.Attrs &^= AItalic
		case code == 24:
			p.UlStyle = 0
		case code == 25:
			p.Attrs &^= ABlink
		case code == 27:
			p.Attrs &^= AReverse
		case code == 28:
			p.Attrs &^= AInvisible
		case code == 29:
			p.Attrs &^= AStrike
		case code >= 30 && code <= 37:
			p.Fg = Color{ColIndex, uint32(code - 30)}
		case code == 39:
			p.Fg = Color{}
		case code >= 40 && code <= 47:
			p.Bg = Color{ColIndex, uint32(code - 40)}
		case code == 49:
			p.Bg = Color{}
		case code >= 90 && code <= 97:
			p.Fg = Color{ColIndex, uint32(code - 90 + 8)}
		case code >= 100 && code <= 107:
			p.Bg = Color{ColIndex, uint32(code - 100 + 8)}
		case code == 59:
			t.log("gated:styled-underlines", "SGR 59")
			p.Ul = Color{}
		case code == 38 || code == 48 || code == 58:
			var col Color
			ok := false
			if len(q) > 1 {
				// colon form
				switch q[1] {
				case 5:
					if len(q) >= 3 {
						col, ok = Color{ColIndex, uint32(q[2] & 0xff)}, true
					}
				case 2:
					switch {
					case len(q) >= 6:
						col, ok = Color{ColRGB, uint32(q[3]&0xff)<<16 | uint32(q[4]&0xff)<<8 | uint32(q[5]&0xff)}, true
					case len(q) == 5:
						col, ok = Color{ColRGB, uint32(q[2]&0xff)<<16 | uint32(q[3]&0xff)<<8 | uint32(q[4]&0xff)}, true
					}
				}
			} else if i+1 < len(ps) {
				switch ps[i+1][0] {
				case 5:
					if i+2 < len(ps) {
						col, ok = Color{ColIndex, uint32(ps[i+2][0] & 0xff)}, true
						i += 2
					} else {
						i = len(ps)
					}
				case 2:
					if i+4 < len(ps) {
						col, ok = Color{ColRGB, uint32(ps[i+2][0]&0xff)<<16 | uint32(ps[i+3][0]&0xff)<<8 | uint32(ps[i+4][0]&0xff)}, true
						i += 4
					} else {
						i = len(ps)
					}
				default:
					i = len(ps)
				}
			}
			if ok {
				if col.Kind == ColRGB {
					t.log("gated:rgb", "SGR %d rgb", code)
				}
				switch code {
				case 38:
					p.Fg = col
				case 48:
					p.Bg = col
				case 58:
					t.log("gated:styled-underlines", "SGR 58")
					p.Ul = col
				}
			}
		}
	}
}
