// Package refterm is an independent reference terminal: an interpreter of
// terminal *output* written from the xterm control-sequence documentation and
// vt100.net, sharing no code with /repo.  It is (a) the display oracle for
// everything Vaxis writes, (b) strict about behaviour real terminals disagree
// on (represented as poison), and (c) the reply engine + vocabulary
// classifier for capability checks.  DESIGN.md §2.2.
package refterm

import (
	"fmt"
	"strings"
	"sync"
	"unicode/utf8"

	"verif/internal/vtref"
	"verif/internal/widthtab"
)

type ColorKind uint8

const (
	ColDefault ColorKind = iota
	ColIndex
	ColRGB
)

type Color struct {
	Kind ColorKind
	V    uint32 // index, or 0xRRGGBB
}

func (c Color) String() string {
	switch c.Kind {
	case ColIndex:
		return fmt.Sprintf("idx%d", c.V)
	case ColRGB:
		return fmt.Sprintf("#%06x", c.V)
	}
	return "default"
}

// attribute bits (refterm's own numbering)
const (
	ABold = 1 << iota
	ADim
	AItalic
	ABlink
	AReverse
	AInvisible
	AStrike
)

type Style struct {
	Fg, Bg, Ul Color
	UlStyle    uint8 // 0 off, 1 single, 2 double, 3 curly, 4 dotted, 5 dashed
	Attrs      uint8
	Link       string
	LinkParams string
}

func (s Style) String() string {
	return fmt.Sprintf("{fg=%v bg=%v ul=%v/%d attrs=%07b link=%q/%q}", s.Fg, s.Bg, s.Ul, s.UlStyle, s.Attrs, s.Link, s.LinkParams)
}

type Cell struct {
	G      string // glyph text; "" = blank
	W      int    // columns of the glyph starting here; 0 = continuation of the glyph to the left
	Style  Style
	Poison string // non-empty: what is shown here is terminal-specific
}

func (c Cell) Blank() bool { return c.Poison == "" && (c.G == "" || c.G == " ") && c.W != 0 }

type Cursor struct {
	Row, Col int
	Visible  bool
	Shape    int // DECSCUSR value
}

type savedCursor struct {
	row, col int
	pen      Style
	wrap     bool
	set      bool
}

type screen struct {
	cells [][]Cell
	saved savedCursor
}

// Event is one sequence received, classified for C07.
type Event struct {
	Seq   string // readable form
	Class string // "baseline", "query", "gated:<capability>", "unknown"
	Phase int    // 0 = before/at the first DA1 query of the session, 1 = after
}

// Term is the reference terminal.
type Term struct {
	mu   sync.Mutex
	Cols int
	Rows int

	primary, alt *screen
	cur          *screen
	Alt          bool

	C           Cursor
	PendingWrap bool
	Pen         Style
	Top, Bottom int // scroll region, inclusive, 0-based

	Autowrap bool
	Strict   bool // poison instead of picking one terminal's behaviour

	// modes and settings (C04 compares projections of these)
	DecModes     map[int]bool
	KeypadApp    bool
	KittyStack   []int // of the active screen: the main and the alternate screen keep separate stacks (kitty keyboard protocol)
	kittyOther   []int // of the other screen
	PointerShape string
	AppID        string
	Title        string
	SyncDepth    int
	SyncMin      int // lowest depth seen (negative = unbalanced)
	SyncMax      int
	Insert       bool
	tabs         map[int]bool

	Caps   Caps
	Method widthtab.Method // base width method when 2027 is off

	Events   []Event
	phase    int
	Unknown  []string // sequences refterm does not implement
	Bells    int
	Notifies []string
	Clip     []string
	Graphics []GfxOp

	// Reply is called (with the lock released) for every byte string the
	// terminal sends back to the application.
	Reply func([]byte)
	// Latency control: a reply for key k is passed through Hold first; if it
	// returns true the reply is withheld (the harness releases it later).
	Hold func(kind string, reply []byte) bool

	parser  *vtref.Stream
	replies [][]byte
	Bytes   int
}

// GfxOp is one graphics protocol operation seen (C20).
type GfxOp struct {
	Proto string // "kitty" | "sixel"
	Keys  map[string]string
	Row   int
	Col   int
	Bytes int
}

func New(cols, rows int, caps Caps) *Term {
	t := &Term{Cols: cols, Rows: rows, Caps: caps, Autowrap: true}
	t.primary = newScreen(cols, rows)
	t.alt = newScreen(cols, rows)
	t.cur = t.primary
	t.C = Cursor{Visible: true, Shape: caps.UserCursorStyle}
	t.Bottom = rows - 1
	t.DecModes = map[int]bool{7: true, 25: true}
	t.PointerShape = "text"
	t.AppID = caps.AppID
	if caps.KittyKbd && caps.KittyInitial > 0 {
		t.KittyStack = []int{caps.KittyInitial}
	}
	t.parser = vtref.NewStream()
	t.tabs = map[int]bool{}
	switch {
	case strings.HasPrefix(caps.XTVersion, "kitty"):
		t.Method = widthtab.NoZWJ
	case caps.XTVersion == "tmux 3.4":
		// tmux 3.4 measures grapheme clusters without advertising 2027
		t.Method = widthtab.Unicode
	}
	return t
}

func newScreen(cols, rows int) *screen {
	s := &screen{cells: make([][]Cell, rows)}
	for r := range s.cells {
		s.cells[r] = blankRow(cols, Style{})
	}
	return s
}

func blankRow(cols int, st Style) []Cell {
	row := make([]Cell, cols)
	for i := range row {
		row[i] = Cell{W: 1, Style: st}
	}
	return row
}

// Lock/Unlock let the harness read state consistently.
func (t *Term) Lock()   { t.mu.Lock() }
func (t *Term) Unlock() { t.mu.Unlock() }

// Grid returns the active screen's cells (caller holds the lock or the
// terminal is quiescent).
func (t *Term) Grid() [][]Cell { return t.cur.cells }

func (t *Term) Cell(row, col int) Cell { return t.cur.cells[row][col] }

// Resize changes the geometry the way a terminal emulator window does:
// content is kept top-left, new cells are blank; cursor clamped.
func (t *Term) Resize(cols, rows int) {
	t.mu.Lock()
	defer t.mu.Unlock()
	for _, s := range []*screen{t.primary, t.alt} {
		nc := make([][]Cell, rows)
		for r := range nc {
			nc[r] = blankRow(cols, Style{})
			if r < len(s.cells) {
				copy(nc[r], s.cells[r])
				// a wide glyph cut by the new edge is terminal-specific
				if cols < len(s.cells[r]) && cols > 0 && s.cells[r][cols].W == 0 {
					for c := cols - 1; c >= 0; c-- {
						// what is left of it is an ordinary cell again
						nc[r][c] = Cell{W: 1, Style: nc[r][c].Style, Poison: "wide glyph cut by resize"}
						if s.cells[r][c].W != 0 {
							break
						}
					}
				}
			}
		}
		s.cells = nc
	}
	t.Cols, t.Rows = cols, rows
	t.Top, t.Bottom = 0, rows-1
	if t.C.Row >= rows {
		t.C.Row = rows - 1
	}
	if t.C.Col >= cols {
		t.C.Col = cols - 1
	}
	t.PendingWrap = false
}

// Scribble overwrites a cell directly (the harness uses it to model "whatever
// the terminal displayed before" for Refresh / resize).
func (t *Term) Scribble(row, col int, g string, w int, st Style) {
	t.mu.Lock()
	defer t.mu.Unlock()
	if row < 0 || row >= t.Rows || col < 0 || col+w > t.Cols || w < 1 {
		return
	}
	t.clearForWrite(row, col, w, false)
	t.cur.cells[row][col] = Cell{G: g, W: w, Style: st}
	for i := 1; i < w; i++ {
		t.cur.cells[row][col+i] = Cell{W: 0, Style: st}
	}
}

// Write feeds output bytes; replies are delivered through Reply after the
// state has been updated.
func (t *Term) Write(b []byte) (int, error) {
	t.mu.Lock()
	t.Bytes += len(b)
	items := t.parser.Feed(b)
	for _, it := range items {
		t.dispatch(it)
	}
	replies := t.replies
	t.replies = nil
	reply := t.Reply
	t.mu.Unlock()
	if reply != nil {
		for _, r := range replies {
			reply(r)
		}
	}
	return len(b), nil
}

func (t *Term) send(kind string, s string) {
	b := []byte(s)
	if t.Hold != nil && t.Hold(kind, b) {
		return
	}
	t.replies = append(t.replies, b)
}

func (t *Term) log(class, format string, a ...any) {
	t.Events = append(t.Events, Event{Seq: fmt.Sprintf(format, a...), Class: class, Phase: t.phase})
}

func (t *Term) unknown(format string, a ...any) {
	s := fmt.Sprintf(format, a...)
	t.Unknown = append(t.Unknown, s)
	t.Events = append(t.Events, Event{Seq: s, Class: "unknown", Phase: t.phase})
}

func (t *Term) dispatch(it vtref.Item) {
	switch it.Kind {
	case vtref.Text:
		var sb strings.Builder
		for _, r := range it.Run {
			sb.WriteRune(r.R)
		}
		t.printText(sb.String(), 0)
	case vtref.C0:
		t.c0(it.Code)
	case vtref.ESC:
		t.esc(it)
	case vtref.CSI:
		t.csi(it)
	case vtref.OSC:
		t.osc(string(it.Data))
	case vtref.DCS:
		t.dcs(it)
	case vtref.APC:
		t.apc(string(it.Data))
	case vtref.SS3:
		t.unknown("SS3 %q", it.Code)
	}
}

// ---------------------------------------------------------------------------
// printing

func (t *Term) method() widthtab.Method {
	if t.DecModes[2027] {
		return widthtab.Unicode
	}
	return t.Method
}

type glyph struct {
	s string
	w int
}

// tokenize splits printable text into glyphs the way this terminal would:
// grapheme clusters under the Unicode method, code points otherwise.
func (t *Term) tokenize(s string) []glyph {
	m := t.method()
	var out []glyph
	for len(s) > 0 {
		if m != widthtab.Wcwidth {
			matched := false
			for _, k := range widthtab.Keys() {
				if strings.HasPrefix(s, k) {
					if m == widthtab.NoZWJ && strings.Contains(k, "‍") && len(k) > 3 {
						break // ZWJ does not join under this method: fall to code points
					}
					w, _ := widthtab.Width(k, m)
					out = append(out, glyph{k, w})
					s = s[len(k):]
					matched = true
					break
				}
			}
			if matched {
				continue
			}
		}
		r, n := firstRune(s)
		w := widthtab.CodepointWidth(r)
		if m == widthtab.NoZWJ && r == 0xfe0f && len(out) > 0 && out[len(out)-1].w == 1 {
			// VS16 widens the preceding narrow emoji under grapheme methods
			out[len(out)-1].s += s[:n]
			out[len(out)-1].w = 2
			s = s[n:]
			continue
		}
		if m == widthtab.NoZWJ && r >= 0x1f3fb && r <= 0x1f3ff && len(out) > 0 && out[len(out)-1].w == 2 {
			// emoji modifier joins its base under grapheme methods
			out[len(out)-1].s += s[:n]
			s = s[n:]
			continue
		}
		out = append(out, glyph{s[:n], w})
		s = s[n:]
	}
	return out
}

func firstRune(s string) (rune, int) {
	r, n := utf8.DecodeRuneInString(s)
	if r == utf8.RuneError && n <= 1 {
		return rune(s[0]), 1
	}
	return r, n
}

// printText prints text; forceW > 0 is OSC 66 explicit width for the whole
// text as one glyph.
func (t *Term) printText(s string, forceW int) {
	if forceW > 0 {
		t.putGlyph(glyph{s, forceW})
		return
	}
	for _, g := range t.tokenize(s) {
		t.putGlyph(g)
	}
}

func (t *Term) putGlyph(g glyph) {
	cells := t.cur.cells
	if g.w == 0 {
		// zero-width: attaches to the glyph before the cursor
		col := t.C.Col - 1
		if t.PendingWrap {
			col = t.C.Col
		}
		for col >= 0 && cells[t.C.Row][col].W == 0 {
			col--
		}
		if col >= 0 {
			cells[t.C.Row][col].G += g.s
			if cells[t.C.Row][col].G == g.s {
				// attached to a blank: what shows is terminal-specific
				if t.Strict {
					cells[t.C.Row][col].Poison = "combining character on a blank cell"
				}
			}
		}
		return
	}
	if t.PendingWrap {
		if t.Autowrap {
			if t.Strict {
				// relying on deferred wrap: mark where it lands
				t.lineFeedWrap()
				t.poisonAt(t.C.Row, t.C.Col, g.w, "printed through a deferred wrap")
				t.advanceAfter(g.w)
				return
			}
			t.lineFeedWrap()
		} else {
			t.PendingWrap = false
		}
	}
	if g.w > t.Cols {
		return
	}
	if t.C.Col+g.w > t.Cols {
		// glyph does not fit in the rest of the row
		if t.Strict {
			t.poisonAt(t.C.Row, t.C.Col, t.Cols-t.C.Col, "wide glyph printed across the right edge")
			t.PendingWrap = true
			t.C.Col = t.Cols - 1
			return
		}
		if t.Autowrap {
			// xterm: the glyph does not fit: wrap first (the cells left
			// of the edge keep what they show), print on the next line
			t.lineFeedWrap()
			cells = t.cur.cells
		} else {
			// no autowrap: the glyph takes the last columns of the line
			t.C.Col = t.Cols - g.w
		}
	}
	if t.Insert {
		t.insertBlank(g.w)
	}
	t.clearForWrite(t.C.Row, t.C.Col, g.w, true)
	cells[t.C.Row][t.C.Col] = Cell{G: g.s, W: g.w, Style: t.Pen}
	for i := 1; i < g.w; i++ {
		cells[t.C.Row][t.C.Col+i] = Cell{W: 0, Style: t.Pen}
	}
	t.advanceAfter(g.w)
}

func (t *Term) advanceAfter(w int) {
	if t.C.Col+w >= t.Cols {
		t.C.Col = t.Cols - 1
		t.PendingWrap = true
	} else {
		t.C.Col += w
	}
}

func (t *Term) poisonAt(row, col, n int, why string) {
	for c := col; c < col+n && c < t.Cols; c++ {
		if c >= 0 {
			t.cur.cells[row][c].Poison = why
		}
	}
}

// clearForWrite handles overwriting part of a wide glyph at [col, col+w):
// the other halves become blank (xterm) or poison (strict printing).
func (t *Term) clearForWrite(row, col, w int, printing bool) {
	cells := t.cur.cells[row]
	fix := func(c int) {
		// c is a cell that belongs to a glyph partly outside [col,col+w)
		lead := c
		for lead > 0 && cells[lead].W == 0 {
			lead--
		}
		gw := cells[lead].W
		if gw < 1 {
			gw = 1
		}
		for k := lead; k < lead+gw && k < len(cells); k++ {
			if k >= col && k < col+w {
				continue
			}
			st := cells[k].Style
			cells[k] = Cell{W: 1, Style: st}
			if printing && t.Strict {
				cells[k].Poison = "remainder of a half-overwritten wide glyph"
			}
		}
	}
	if col < len(cells) && col >= 0 && cells[col].W == 0 {
		fix(col)
	}
	last := col + w - 1
	if last < len(cells) && last >= 0 {
		lead := last
		for lead > 0 && cells[lead].W == 0 {
			lead--
		}
		if lead+cells[lead].W-1 > last {
			fix(last)
		}
	}
}

func (t *Term) lineFeedWrap() {
	t.PendingWrap = false
	t.C.Col = 0
	t.index()
}

// index moves down one line, scrolling inside the region at its bottom.
func (t *Term) index() {
	switch {
	case t.C.Row == t.Bottom:
		t.scrollUp(1)
	case t.C.Row < t.Rows-1:
		t.C.Row++
	}
}

func (t *Term) reverseIndex() {
	switch {
	case t.C.Row == t.Top:
		t.scrollDown(1)
	case t.C.Row > 0:
		t.C.Row--
	}
}

func (t *Term) eraseStyle() Style { return Style{Bg: t.Pen.Bg} }

func (t *Term) scrollUp(n int) {
	cells := t.cur.cells
	for ; n > 0; n-- {
		for r := t.Top; r < t.Bottom; r++ {
			cells[r] = cells[r+1]
		}
		cells[t.Bottom] = blankRow(t.Cols, t.eraseStyle())
	}
}

func (t *Term) scrollDown(n int) {
	cells := t.cur.cells
	for ; n > 0; n-- {
		for r := t.Bottom; r > t.Top; r-- {
			cells[r] = cells[r-1]
		}
		cells[t.Top] = blankRow(t.Cols, t.eraseStyle())
	}
}

func (t *Term) eraseCells(row, from, to int) { // [from,to)
	if from < 0 {
		from = 0
	}
	if to > t.Cols {
		to = t.Cols
	}
	if from >= to {
		return
	}
	t.clearForWrite(row, from, to-from, false)
	st := t.eraseStyle()
	for c := from; c < to; c++ {
		t.cur.cells[row][c] = Cell{W: 1, Style: st}
	}
}

func (t *Term) insertBlank(n int) {
	row := t.cur.cells[t.C.Row]
	col := t.C.Col
	if n > t.Cols-col {
		n = t.Cols - col
	}
	if n <= 0 {
		return
	}
	// inserting in the middle of a wide glyph (cursor on its right half)
	// splits it; inserting at its left half just moves it
	if row[col].W == 0 {
		t.clearForWrite(t.C.Row, col, 1, false)
		row[col] = Cell{W: 1, Style: row[col].Style}
	}
	copy(row[col+n:], row[col:t.Cols-n])
	st := t.eraseStyle()
	for c := col; c < col+n; c++ {
		row[c] = Cell{W: 1, Style: st}
	}
	t.fixRowEnd(t.C.Row)
}

func (t *Term) deleteChars(n int) {
	row := t.cur.cells[t.C.Row]
	col := t.C.Col
	if n > t.Cols-col {
		n = t.Cols - col
	}
	if n <= 0 {
		return
	}
	t.clearForWrite(t.C.Row, col, n, false)
	copy(row[col:], row[col+n:])
	st := t.eraseStyle()
	for c := t.Cols - n; c < t.Cols; c++ {
		row[c] = Cell{W: 1, Style: st}
	}
	t.fixRowEnd(t.C.Row)
	// a continuation cell shifted to the cursor column lost its lead
	if row[col].W == 0 {
		k := col
		for k < t.Cols && row[k].W == 0 {
			row[k] = Cell{W: 1, Style: row[k].Style}
			k++
		}
	}
}

// fixRowEnd repairs a wide glyph whose tail was pushed off the right edge.
func (t *Term) fixRowEnd(r int) {
	row := t.cur.cells[r]
	for c := 0; c < t.Cols; c++ {
		if row[c].W > 1 && c+row[c].W > t.Cols {
			for k := c; k < t.Cols; k++ {
				row[k] = Cell{W: 1, Style: row[k].Style}
			}
			break
		}
	}
}

// ---------------------------------------------------------------------------
// C0 and ESC

func (t *Term) c0(r rune) {
	switch r {
	case 0x07:
		t.Bells++
		t.log("baseline", "BEL")
	case 0x08:
		if t.C.Col > 0 {
			t.C.Col--
		}
		t.PendingWrap = false
	case 0x09:
		t.PendingWrap = false
		c := t.C.Col + 1
		for c < t.Cols-1 && !t.isTab(c) {
			c++
		}
		if c > t.Cols-1 {
			c = t.Cols - 1
		}
		t.C.Col = c
	case 0x0a, 0x0b, 0x0c:
		t.PendingWrap = false
		t.index()
		if t.DecModes[-20] {
			t.C.Col = 0
		}
	case 0x0d:
		t.PendingWrap = false
		t.C.Col = 0
	case 0x00, 0x0e, 0x0f:
	default:
	}
}

func (t *Term) isTab(c int) bool {
	if v, ok := t.tabs[c]; ok {
		return v
	}
	return c%8 == 0
}

func (t *Term) esc(it vtref.Item) {
	if len(it.Inter) > 0 {
		switch it.Inter[0] {
		case '(', ')', '*', '+':
			t.log("baseline", "SCS %c%c", it.Inter[0], it.Code)
			return
		case '#':
			if it.Code == '8' { // DECALN
				for r := 0; r < t.Rows; r++ {
					for c := 0; c < t.Cols; c++ {
						t.cur.cells[r][c] = Cell{G: "E", W: 1}
					}
				}
				t.C.Row, t.C.Col = 0, 0
				t.PendingWrap = false
				return
			}
		}
		t.unknown("ESC %s %c", string(it.Inter), it.Code)
		return
	}
	switch it.Code {
	case '7':
		t.cur.saved = savedCursor{row: t.C.Row, col: t.C.Col, pen: t.Pen, wrap: t.PendingWrap, set: true}
	case '8':
		s := t.cur.saved
		if !s.set {
			t.C.Row, t.C.Col = 0, 0
			t.Pen = Style{Link: t.Pen.Link, LinkParams: t.Pen.LinkParams}
			t.PendingWrap = false
			return
		}
		t.C.Row, t.C.Col = clamp(s.row, 0, t.Rows-1), clamp(s.col, 0, t.Cols-1)
		link, lp := t.Pen.Link, t.Pen.LinkParams
		t.Pen = s.pen
		t.Pen.Link, t.Pen.LinkParams = link, lp
		t.PendingWrap = s.wrap
	case 'D':
		t.PendingWrap = false
		t.index()
	case 'E':
		t.PendingWrap = false
		t.index()
		t.C.Col = 0
	case 'M':
		t.PendingWrap = false
		t.reverseIndex()
	case 'H':
		t.tabs[t.C.Col] = true
	case '=':
		t.KeypadApp = true
		t.log("baseline", "DECKPAM")
	case '>':
		t.KeypadApp = false
		t.log("baseline", "DECKPNM")
	case 'c':
		t.reset()
	case '\\':
		// a stray ST is a no-op
	default:
		t.unknown("ESC %c", it.Code)
	}
}

func (t *Term) reset() {
	t.primary = newScreen(t.Cols, t.Rows)
	t.alt = newScreen(t.Cols, t.Rows)
	t.cur = t.primary
	t.Alt = false
	t.C = Cursor{Visible: true, Shape: t.Caps.UserCursorStyle}
	t.Pen = Style{}
	t.PendingWrap = false
	t.Top, t.Bottom = 0, t.Rows-1
	t.DecModes = map[int]bool{7: true, 25: true}
	t.KeypadApp = false
	t.Insert = false
	t.tabs = map[int]bool{}
	t.Autowrap = true
}

func clamp(v, lo, hi int) int {
	if v < lo {
		return lo
	}
	if v > hi {
		return hi
	}
	return v
}
