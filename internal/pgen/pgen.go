// Package pgen holds the rapid generators for terminal byte streams shared by
// the parser checks (C02, C08) and others that need hostile input.
package pgen

import (
	"strconv"

	"pgregory.net/rapid"
)

// Graphemes is the text alphabet: narrow, wide, combining, multi-codepoint
// clusters, a valid U+FFFD, DEL, and raw invalid bytes / truncated scalars.
var Graphemes = []string{
	"a", "Z", " ", "~", "0", ";", "[", "\\", "é", "ф", "宽", "한", "😀",
	"é", "́", "‍", "👩‍🚀", "❤️", "👋🏿", "🇺🇸", "🇺",
	"�", "\x7f", "©", "\u0085",
	"\xff", "\xc3", "\xe2\x82", "\x80", "\xa9", "\xf0\x9f\x98",
}

var paramValues = []string{"", "", "0", "1", "2", "5", "9", "10", "38", "48", "255", "65535", "1000000000", "999999999999999999", "00000000000000000000001", "99999999999999999999", "18446744073709551616", "900000000000000000000", "2147483647", "2147483648"}

func bytesOf(rt *rapid.T, label string, n int, alphabet []string) []byte {
	var out []byte
	k := rapid.IntRange(0, n).Draw(rt, label+"-n")
	for i := 0; i < k; i++ {
		out = append(out, rapid.SampledFrom(alphabet).Draw(rt, label)...)
	}
	return out
}

var payloadAlphabet = []string{
	"a", "b", ";", ":", "?", "=", "0", "1", "52", "c", "/", " ", "~", "\\", "[", "]", "\x7f",
	"é", "宽", "😀", "́", "�",
	"\n", "\r", "\x00", "\x05", "\x1f",
	"\xff", "\xc3", "\x80",
}

func params(rt *rapid.T) []byte {
	var out []byte
	n := rapid.IntRange(0, 5).Draw(rt, "nparams")
	if rapid.IntRange(0, 40).Draw(rt, "manyparams") == 0 {
		n = rapid.IntRange(16, 40).Draw(rt, "nparams-many")
	}
	for i := 0; i < n; i++ {
		if i > 0 {
			if rapid.IntRange(0, 3).Draw(rt, "sep") == 0 {
				out = append(out, ':')
			} else {
				out = append(out, ';')
			}
		}
		if rapid.IntRange(0, 5).Draw(rt, "pv-rand") == 0 {
			out = append(out, strconv.Itoa(rapid.IntRange(0, 100000).Draw(rt, "pv"))...)
		} else {
			out = append(out, rapid.SampledFrom(paramValues).Draw(rt, "pv-s")...)
		}
	}
	return out
}

func inters(rt *rapid.T, max int) []byte {
	var out []byte
	n := rapid.IntRange(0, max).Draw(rt, "ninter")
	if rapid.IntRange(0, 2).Draw(rt, "inter?") != 0 {
		n = 0
	}
	for i := 0; i < n; i++ {
		out = append(out, byte(rapid.IntRange(0x20, 0x2f).Draw(rt, "inter")))
	}
	return out
}

func terminator(rt *rapid.T, allowBel bool) []byte {
	switch rapid.IntRange(0, 9).Draw(rt, "term") {
	case 0:
		return []byte{0x18}
	case 1:
		return []byte{0x1a}
	case 2:
		return nil // left open: the next token's ESC (or EOF) ends it
	case 3, 4:
		if allowBel {
			return []byte{0x07}
		}
	}
	return []byte("\x1b\\")
}

// Token draws one token of the input grammar.
func Token(rt *rapid.T) []byte {
	var tok []byte
	switch rapid.IntRange(0, 11).Draw(rt, "kind") {
	case 0, 1:
		tok = bytesOf(rt, "text", 6, Graphemes)
	case 2:
		tok = []byte{byte(rapid.IntRange(0, 0x1f).Draw(rt, "c0"))}
	case 3: // escape sequence
		tok = append([]byte{0x1b}, inters(rt, 2)...)
		tok = append(tok, byte(rapid.IntRange(0x30, 0x7f).Draw(rt, "escfinal")))
	case 4, 5, 6: // CSI
		tok = []byte("\x1b[")
		if rapid.IntRange(0, 2).Draw(rt, "priv?") == 0 {
			tok = append(tok, byte(rapid.IntRange(0x3c, 0x3f).Draw(rt, "priv")))
		}
		tok = append(tok, params(rt)...)
		if rapid.IntRange(0, 15).Draw(rt, "badpriv") == 0 {
			tok = append(tok, '?') // private marker after parameters: ignore
			tok = append(tok, params(rt)...)
		}
		tok = append(tok, inters(rt, 2)...)
		if rapid.IntRange(0, 15).Draw(rt, "param-after-inter") == 0 {
			tok = append(tok, '1')
		}
		if rapid.IntRange(0, 10).Draw(rt, "c0inside") == 0 {
			tok = append(tok, byte(rapid.SampledFrom([]int{0x00, 0x07, 0x0a, 0x0d, 0x7f}).Draw(rt, "c0in")))
		}
		tok = append(tok, byte(rapid.IntRange(0x40, 0x7e).Draw(rt, "csifinal")))
	case 7: // DCS
		tok = []byte("\x1bP")
		if rapid.IntRange(0, 2).Draw(rt, "priv?") == 0 {
			tok = append(tok, byte(rapid.IntRange(0x3c, 0x3f).Draw(rt, "priv")))
		}
		ps := params(rt)
		tok = append(tok, ps...)
		tok = append(tok, inters(rt, 2)...)
		tok = append(tok, byte(rapid.IntRange(0x40, 0x7e).Draw(rt, "dcsfinal")))
		tok = append(tok, bytesOf(rt, "dcsdata", 6, payloadAlphabet)...)
		tok = append(tok, terminator(rt, false)...)
	case 8: // OSC
		tok = []byte("\x1b]")
		tok = append(tok, bytesOf(rt, "osc", 8, payloadAlphabet)...)
		tok = append(tok, terminator(rt, true)...)
	case 9: // APC / SOS / PM
		tok = append([]byte{0x1b}, rapid.SampledFrom([]byte{'_', 'X', '^', '_'}).Draw(rt, "strkind"))
		tok = append(tok, bytesOf(rt, "str", 6, payloadAlphabet)...)
		tok = append(tok, terminator(rt, false)...)
	case 10: // SS3
		tok = []byte("\x1bO")
		if rapid.IntRange(0, 8).Draw(rt, "ss3c0") == 0 {
			tok = append(tok, 0x0a)
		}
		tok = append(tok, rapid.SampledFrom(Graphemes).Draw(rt, "ss3")...)
	case 11: // lone introducers and ST
		tok = []byte(rapid.SampledFrom([]string{"\x1b", "\x1b\x1b", "\x1b\\", "\x18", "\x1a", "\x1b[", "\x1bP", "\x1b]", "\x1b_", "\x1bX", "\x1b^", "\x1bO", "\x1b\x7f"}).Draw(rt, "lone"))
	}
	// truncation
	if len(tok) > 1 && rapid.IntRange(0, 7).Draw(rt, "trunc?") == 0 {
		tok = tok[:rapid.IntRange(1, len(tok)-1).Draw(rt, "trunc")]
		if rapid.IntRange(0, 2).Draw(rt, "cancel?") == 0 {
			tok = append(tok, rapid.SampledFrom([]byte{0x18, 0x1a}).Draw(rt, "cancel"))
		}
	}
	return tok
}

// Stream draws a token stream.
func Stream(rt *rapid.T, maxTokens int) []byte {
	n := rapid.IntRange(1, maxTokens).Draw(rt, "ntokens")
	var out []byte
	for i := 0; i < n; i++ {
		out = append(out, Token(rt)...)
	}
	return out
}

// RawBytes draws arbitrary bytes biased toward the automaton's byte classes.
func RawBytes(rt *rapid.T, max int) []byte {
	n := rapid.IntRange(0, max).Draw(rt, "nraw")
	out := make([]byte, 0, n)
	for i := 0; i < n; i++ {
		if rapid.IntRange(0, 2).Draw(rt, "cls") == 0 {
			out = append(out, byte(rapid.IntRange(0, 255).Draw(rt, "b")))
		} else {
			out = append(out, rapid.SampledFrom([]byte{0x1b, 0x1b, 0x18, 0x1a, 0x07, '[', ']', 'P', '_', 'X', '^', 'O', '\\', '0', '1', ';', ':', '?', '>', ' ', '$', 'm', 'u', '~', 'a', 0x7f, 0xc3, 0xa9, 0xff, 0xe2, 0x80, 0x8d}).Draw(rt, "bc"))
		}
	}
	return out
}

// Splits draws the offsets at which reads end: none, every byte, or a
// random subset.
func Splits(rt *rapid.T, n int) []int {
	if n < 2 {
		return nil
	}
	switch rapid.IntRange(0, 9).Draw(rt, "splitmode") {
	case 0, 1, 2, 3:
		return nil
	case 4:
		out := make([]int, 0, n)
		for i := 1; i < n; i++ {
			out = append(out, i)
		}
		return out
	}
	k := rapid.IntRange(1, 6).Draw(rt, "nsplits")
	var out []int
	for i := 0; i < k; i++ {
		out = append(out, rapid.IntRange(1, n-1).Draw(rt, "split"))
	}
	return out
}
