// Package pdrive drives /repo's ansi.Parser over a byte stream delivered in
// harness-chosen read chunks and compares what it delivers with vtref.
package pdrive

import (
	"fmt"
	"io"
	"sort"
	"strings"
	"sync"
	"time"

	"git.sr.ht/~rockorager/vaxis/ansi"
	"github.com/rivo/uniseg"

	"verif/internal/vtref"
)

// ChunkReader returns the stream in pieces ending at the given offsets and
// records the offsets at which reads actually ended.
type ChunkReader struct {
	mu     sync.Mutex
	data   []byte
	pos    int
	splits []int // sorted offsets at which a Read must end
	Ends   []int // offsets at which Reads ended (recorded)
	// End behaviour once the data is exhausted
	FinalErr error // nil => io.EOF
	// Gate, when non-nil, is called before each Read with the current
	// offset (used by timing tests to sleep between chunks).
	Gate func(off int)
}

func NewChunkReader(data []byte, splits []int) *ChunkReader {
	s := append([]int(nil), splits...)
	sort.Ints(s)
	return &ChunkReader{data: data, splits: s}
}

func (c *ChunkReader) Read(p []byte) (int, error) {
	if c.Gate != nil {
		c.Gate(c.pos)
	}
	c.mu.Lock()
	defer c.mu.Unlock()
	if c.pos >= len(c.data) {
		if c.FinalErr != nil {
			return 0, c.FinalErr
		}
		return 0, io.EOF
	}
	end := len(c.data)
	for _, s := range c.splits {
		if s > c.pos {
			if s < end {
				end = s
			}
			break
		}
	}
	if end-c.pos > len(p) {
		end = c.pos + len(p)
	}
	n := copy(p, c.data[c.pos:end])
	c.pos += n
	c.Ends = append(c.Ends, c.pos)
	return n, nil
}

// Got is one item delivered by the implementation, deep-copied.
type Got struct {
	Kind   string // print c0 esc ss3 csi osc dcs apc eof error other
	Text   string
	Width  int
	Code   rune
	Inter  string
	Params [][]int
	Raw    ansi.Sequence `json:"-"`
}

func (g Got) String() string {
	switch g.Kind {
	case "print":
		return fmt.Sprintf("Print(%q,w=%d)", g.Text, g.Width)
	case "c0":
		return fmt.Sprintf("C0(%#x)", g.Code)
	case "ss3":
		return fmt.Sprintf("SS3(%q)", g.Code)
	case "esc":
		return fmt.Sprintf("ESC(%q,%q)", g.Inter, g.Code)
	case "csi":
		return fmt.Sprintf("CSI(%q,%v,%q)", g.Inter, g.Params, g.Code)
	case "osc":
		return fmt.Sprintf("OSC(%q)", g.Text)
	case "dcs":
		return fmt.Sprintf("DCS(%q,%v,%q,%q)", g.Inter, g.Params, g.Code, g.Text)
	case "apc":
		return fmt.Sprintf("APC(%q)", g.Text)
	}
	return g.Kind
}

func copyParams(p [][]int) [][]int {
	if p == nil {
		return nil
	}
	out := make([][]int, len(p))
	for i := range p {
		out[i] = append([]int{}, p[i]...)
	}
	return out
}

// Convert deep-copies a delivered sequence.
func Convert(seq ansi.Sequence) Got {
	switch s := seq.(type) {
	case ansi.Print:
		return Got{Kind: "print", Text: s.Grapheme, Width: s.Width, Raw: seq}
	case ansi.C0:
		return Got{Kind: "c0", Code: rune(s), Raw: seq}
	case ansi.SS3:
		return Got{Kind: "ss3", Code: rune(s), Raw: seq}
	case ansi.ESC:
		return Got{Kind: "esc", Code: s.Final, Inter: string(s.Intermediate), Raw: seq}
	case ansi.CSI:
		return Got{Kind: "csi", Code: s.Final, Inter: string(s.Intermediate), Params: copyParams(s.Parameters), Raw: seq}
	case ansi.OSC:
		return Got{Kind: "osc", Text: string(s.Payload), Raw: seq}
	case ansi.DCS:
		var ps [][]int
		if s.Parameters != nil {
			for _, v := range s.Parameters {
				ps = append(ps, []int{v})
			}
		}
		return Got{Kind: "dcs", Code: s.Final, Inter: string(s.Intermediate), Params: ps, Text: string(s.Data), Raw: seq}
	case ansi.APC:
		return Got{Kind: "apc", Text: s.Data, Raw: seq}
	case ansi.EOF:
		return Got{Kind: "eof", Raw: seq}
	case error:
		return Got{Kind: "error", Text: s.Error(), Raw: seq}
	}
	return Got{Kind: "other", Text: fmt.Sprintf("%T", seq), Raw: seq}
}

// Outcome of one run of the implementation.
type Outcome struct {
	Items   []Got // everything received, in order, including eof/error items
	Closed  bool  // the channel was closed by the parser
	Hang    bool  // watchdog expired before the channel closed
	Ends    []int // read boundaries
	Elapsed time.Duration
}

// Run feeds the stream with the given split points to a fresh parser and
// collects everything until the channel closes.  finish tells whether each
// sequence is handed back with Finish right after it has been copied.
func Run(stream []byte, splits []int, finish bool) Outcome {
	rd := NewChunkReader(stream, splits)
	return RunReader(rd, finish, 20*time.Second)
}

func RunReader(rd *ChunkReader, finish bool, patience time.Duration) Outcome {
	return RunReaderLagging(rd, finish, patience, nil)
}

// RunReaderLagging is RunReader with a consumer that takes nothing until
// start is closed (or 400 ms have passed, so that a parser which cannot get
// that far because its queue is full is released all the same).
func RunReaderLagging(rd *ChunkReader, finish bool, patience time.Duration, start <-chan struct{}) Outcome {
	t0 := time.Now()
	p := ansi.NewParser(rd)
	var out Outcome
	if start != nil {
		select {
		case <-start:
		case <-time.After(400 * time.Millisecond):
		}
	}
	timer := time.NewTimer(patience)
	defer timer.Stop()
	for {
		select {
		case seq, ok := <-p.Next():
			if !ok {
				out.Closed = true
				rd.mu.Lock()
				out.Ends = append([]int(nil), rd.Ends...)
				rd.mu.Unlock()
				out.Elapsed = time.Since(t0)
				return out
			}
			out.Items = append(out.Items, Convert(seq))
			if finish {
				p.Finish(seq)
			}
		case <-timer.C:
			out.Hang = true
			out.Elapsed = time.Since(t0)
			return out
		}
	}
}

// Lifecycle checks the end-of-input contract on an outcome: channel closed,
// exactly one EOF, as the last item.
func Lifecycle(o Outcome) string {
	if o.Hang {
		return "parser did not close its channel (hang)"
	}
	n := 0
	for i, it := range o.Items {
		if it.Kind == "eof" {
			n++
			if i != len(o.Items)-1 {
				return fmt.Sprintf("EOF delivered at position %d of %d, not last", i, len(o.Items))
			}
		}
	}
	if n != 1 {
		return fmt.Sprintf("%d EOF markers delivered, want exactly 1", n)
	}
	return ""
}

func sameParams(a, b [][]int) bool {
	if len(a) != len(b) {
		return false
	}
	for i := range a {
		if len(a[i]) != len(b[i]) {
			return false
		}
		for j := range a[i] {
			if a[i][j] != b[i][j] {
				return false
			}
		}
	}
	return true
}

// Compare checks the delivered items against the reference result.
// ends are the offsets at which reads ended (cluster pieces are allowed
// there).  exactClusters demands exact segmentation (single-read streams).
func Compare(ref vtref.Result, got []Got, ends []int) string {
	allowed := map[int]bool{}
	for _, e := range ends {
		allowed[e] = true
	}
	// drop diagnostics and the eof marker
	var items []Got
	for _, g := range got {
		if g.Kind == "error" || g.Kind == "eof" {
			continue
		}
		items = append(items, g)
	}
	gi := 0
	describe := func(i int) string {
		if i < len(items) {
			return items[i].String()
		}
		return "<end of delivered items>"
	}
	for ri, it := range ref.Items {
		if it.Kind == vtref.Text {
			if msg := compareRun(it, items, &gi, allowed); msg != "" {
				return fmt.Sprintf("item %d %v: %s", ri, it, msg)
			}
			continue
		}
		if gi >= len(items) {
			if it.OpenAtEOF {
				continue
			}
			return fmt.Sprintf("reference item %d %v (ends at byte %d) was not delivered", ri, it, it.End)
		}
		g := items[gi]
		ok := false
		switch it.Kind {
		case vtref.C0:
			ok = g.Kind == "c0" && g.Code == it.Code
		case vtref.SS3:
			ok = g.Kind == "ss3" && g.Code == it.Code
		case vtref.ESC:
			ok = g.Kind == "esc" && g.Code == it.Code && g.Inter == string(it.Inter)
		case vtref.CSI:
			ok = g.Kind == "csi" && g.Code == it.Code && g.Inter == string(it.Inter) && sameParams(g.Params, it.Params)
		case vtref.OSC:
			ok = g.Kind == "osc" && g.Text == string(it.Data)
		case vtref.APC:
			ok = g.Kind == "apc" && g.Text == string(it.Data)
		case vtref.DCS:
			ok = g.Kind == "dcs" && g.Code == it.Code && g.Inter == string(it.Inter) && sameParams(g.Params, it.Params) && g.Text == string(it.Data)
		}
		if !ok {
			return fmt.Sprintf("reference item %d is %v (ends at byte %d) but the parser delivered %s", ri, it, it.End, describe(gi))
		}
		gi++
	}
	if gi < len(items) {
		return fmt.Sprintf("parser delivered %d extra item(s) starting with %s after everything the reference prescribes", len(items)-gi, describe(gi))
	}
	return ""
}

func compareRun(it vtref.Item, items []Got, gi *int, allowed map[int]bool) string {
	run := it.Run
	// string form with byte offsets into it
	var sb strings.Builder
	startOff := make([]int, len(run)+1) // offset in sb of rune i
	for i, r := range run {
		startOff[i] = sb.Len()
		sb.WriteRune(r.R)
	}
	startOff[len(run)] = sb.Len()
	s := sb.String()
	// stream offsets where a piece may end: read boundaries, and either
	// side of a raw invalid byte
	pieceEnd := func(i int) bool { // may a Print end after rune index i-1 (i.e. before rune i)?
		if i <= 0 || i > len(run) {
			return false
		}
		if i == len(run) {
			return true
		}
		if allowed[run[i-1].End] {
			return true
		}
		return run[i-1].Invalid || run[i].Invalid
	}
	i := 0
	for i < len(run) {
		if *gi >= len(items) {
			return fmt.Sprintf("text %q not delivered (ran out of items at rune %d)", s[startOff[i]:], i)
		}
		g := items[*gi]
		if g.Kind != "print" {
			return fmt.Sprintf("expected a Print continuing text %q, got %s", s[startOff[i]:], g)
		}
		rest := s[startOff[i]:]
		if !strings.HasPrefix(rest, g.Text) || g.Text == "" {
			return fmt.Sprintf("Print %q does not continue the text %q (lost, duplicated or altered)", g.Text, rest)
		}
		// how many runes does it cover
		n := 0
		for range g.Text {
			n++
		}
		first, _, _, _ := uniseg.FirstGraphemeClusterInString(rest, -1)
		ok := g.Text == first
		if !ok {
			// a piece: must be the first cluster of the text up to an
			// allowed boundary b (i < b), b at or after the piece end
			for b := i + n; b < len(run) && b <= i+n+8; b++ {
				if !pieceEnd(b) {
					continue
				}
				f, _, _, _ := uniseg.FirstGraphemeClusterInString(s[startOff[i]:startOff[b]], -1)
				if f == g.Text {
					ok = true
					break
				}
			}
		}
		if !ok {
			return fmt.Sprintf("Print %q is not one grapheme cluster of %q (cluster there is %q) and does not end at a read boundary", g.Text, rest, first)
		}
		if w := uniseg.StringWidth(g.Text); w != g.Width {
			return fmt.Sprintf("Print %q carries width %d, display width is %d", g.Text, g.Width, w)
		}
		i += n
		*gi++
	}
	return ""
}

// Tail checks that the delivered items end with exactly the reference items
// of a probe suffix (used after a resynchronising CAN when the head of the
// stream is outside the reference model's domain).
func Tail(suffix vtref.Result, got []Got, ends []int, suffixStart int) string {
	var items []Got
	for _, g := range got {
		if g.Kind == "error" || g.Kind == "eof" {
			continue
		}
		items = append(items, g)
	}
	// count how many delivered items the suffix needs: try every cut
	for cut := len(items); cut >= 0; cut-- {
		if Compare(suffix, items[cut:], nil) == "" {
			return ""
		}
		if len(items)-cut > len(suffix.Items)+64 {
			break
		}
	}
	return "after CAN the probe suffix was not parsed as from the ground state: tail is " + tailString(items, 12)
}

func tailString(items []Got, n int) string {
	if len(items) > n {
		items = items[len(items)-n:]
	}
	var parts []string
	for _, g := range items {
		parts = append(parts, g.String())
	}
	return strings.Join(parts, " ")
}
