// Package model holds the application-side mirrors and expected-display
// functions shared by the rendering checks (C01, C07, C11, C12).
package model

import (
	"fmt"
	"strings"

	vaxis "git.sr.ht/~rockorager/vaxis"

	"verif/internal/refterm"
	"verif/internal/widthtab"
)

// StyleSpec is a JSON-able vaxis.Style.
type StyleSpec struct {
	Fg      uint32 `json:"fg,omitempty"`
	Bg      uint32 `json:"bg,omitempty"`
	Ul      uint32 `json:"ul,omitempty"`
	UlStyle uint8  `json:"uls,omitempty"`
	Attr    uint8  `json:"attr,omitempty"`
	Link    string `json:"link,omitempty"`
	LinkP   string `json:"linkp,omitempty"`
}

func (s StyleSpec) Vaxis() vaxis.Style {
	return vaxis.Style{
		Foreground:      vaxis.Color(s.Fg),
		Background:      vaxis.Color(s.Bg),
		UnderlineColor:  vaxis.Color(s.Ul),
		UnderlineStyle:  vaxis.UnderlineStyle(s.UlStyle),
		Attribute:       vaxis.AttributeMask(s.Attr),
		Hyperlink:       s.Link,
		HyperlinkParams: s.LinkP,
	}
}

// CellSpec is a JSON-able vaxis.Cell.
type CellSpec struct {
	G     string    `json:"g"`
	W     int       `json:"w,omitempty"`
	Style StyleSpec `json:"s,omitempty"`
}

func (c CellSpec) Vaxis() vaxis.Cell {
	return vaxis.Cell{Character: vaxis.Character{Grapheme: c.G, Width: c.W}, Style: c.Style.Vaxis()}
}

// Mirror is the harness's own record of what the application set.
type Mirror struct {
	Cols, Rows int
	Cells      [][]CellSpec
}

func NewMirror(cols, rows int) *Mirror {
	m := &Mirror{Cols: cols, Rows: rows, Cells: make([][]CellSpec, rows)}
	for r := range m.Cells {
		m.Cells[r] = make([]CellSpec, cols)
	}
	return m
}

func (m *Mirror) Set(col, row int, c CellSpec) {
	if col < 0 || row < 0 || col >= m.Cols || row >= m.Rows {
		return
	}
	m.Cells[row][col] = c
}

func (m *Mirror) SetStyle(col, row int, s StyleSpec) {
	if col < 0 || row < 0 || col >= m.Cols || row >= m.Rows {
		return
	}
	m.Cells[row][col].Style = s
}

func (m *Mirror) Fill(c CellSpec) {
	for r := range m.Cells {
		for col := range m.Cells[r] {
			m.Cells[r][col] = c
		}
	}
}

func (m *Mirror) Clear() { m.Fill(CellSpec{G: " ", W: 1}) }

// TermConfig is what the oracle knows about the terminal: its advertised
// capabilities decide the width method and the style fallbacks.
type TermConfig struct {
	Caps refterm.Caps
}

// Method is the width method a terminal with these replies uses, which is
// also the one the application must measure with.
func (tc TermConfig) Method() widthtab.Method {
	switch {
	case tc.Caps.Unicode2027 || tc.Caps.ExplicitWidth:
		return widthtab.Unicode
	case strings.HasPrefix(tc.Caps.XTVersion, "kitty"):
		return widthtab.NoZWJ
	case tc.Caps.XTVersion == "tmux 3.4":
		return widthtab.Unicode
	}
	return widthtab.Wcwidth
}

func (tc TermConfig) StyledUnderlines() bool { return tc.Caps.Smulx || tc.Caps.VTE }

// ExpCell is one expected display position.
type ExpCell struct {
	G     string // "" = blank
	W     int    // columns; 0 = covered by the glyph to the left
	Style ExpStyle
}

// ExpStyle: colours carry the set of acceptable values (a direct colour
// without RGB support may map to any palette entry at minimal distance).
type ExpStyle struct {
	Fg, Bg, Ul []refterm.Color
	UlStyle    uint8
	Attrs      uint8
	Link       string
	LinkP      string
}

func vaxisColor(c uint32) refterm.Color {
	switch {
	case c&(1<<24) != 0:
		return refterm.Color{Kind: refterm.ColIndex, V: c & 0xff}
	case c&(1<<25) != 0:
		return refterm.Color{Kind: refterm.ColRGB, V: c & 0xffffff}
	}
	return refterm.Color{}
}

// Nearest returns every palette index in 16..255 at minimal weighted
// distance (30dR)^2+(59dG)^2+(11dB)^2 from the colour, in exact integers.
func Nearest(rgb uint32) []int {
	r, g, b := int(rgb>>16&0xff), int(rgb>>8&0xff), int(rgb&0xff)
	best := int64(-1)
	var out []int
	for i := 16; i < 256; i++ {
		pr, pg, pb := refterm.Palette(i)
		dr, dg, db := int64(30*(int(pr)-r)), int64(59*(int(pg)-g)), int64(11*(int(pb)-b))
		d := dr*dr + dg*dg + db*db
		switch {
		case best < 0 || d < best:
			best = d
			out = []int{i}
		case d == best:
			out = append(out, i)
		}
	}
	return out
}

func (tc TermConfig) mapColor(c uint32) []refterm.Color {
	col := vaxisColor(c)
	if col.Kind == refterm.ColRGB && !tc.Caps.RGB {
		var out []refterm.Color
		for _, i := range Nearest(col.V) {
			out = append(out, refterm.Color{Kind: refterm.ColIndex, V: uint32(i)})
		}
		return out
	}
	return []refterm.Color{col}
}

// attribute bit translation: vaxis AttrBold = 1<<1 … AttrStrikethrough = 1<<7
func mapAttrs(a uint8) uint8 { return a >> 1 }

func (tc TermConfig) MapStyle(s StyleSpec) ExpStyle {
	e := ExpStyle{Fg: tc.mapColor(s.Fg), Bg: tc.mapColor(s.Bg), Attrs: mapAttrs(s.Attr)}
	if tc.StyledUnderlines() {
		e.Ul = tc.mapColor(s.Ul)
		e.UlStyle = s.UlStyle
	} else {
		e.Ul = []refterm.Color{{}}
		if s.UlStyle != 0 {
			e.UlStyle = 1
		}
	}
	if s.Link != "" {
		e.Link, e.LinkP = s.Link, s.LinkP
	}
	return e
}

// Expected computes what a conforming terminal must show for the mirror.
// overflow reports glyphs whose extent crosses the right edge (outside the
// checked domain).
func (tc TermConfig) Expected(m *Mirror) (grid [][]ExpCell, overflow int) {
	method := tc.Method()
	grid = make([][]ExpCell, m.Rows)
	for r := 0; r < m.Rows; r++ {
		row := make([]ExpCell, m.Cols)
		for c := 0; c < m.Cols; {
			cell := m.Cells[r][c]
			w := cell.W
			if w == 0 && cell.G != "" {
				tw, ok := widthtab.Width(cell.G, method)
				if !ok {
					tw = 1
				}
				w = tw
			}
			st := tc.MapStyle(cell.Style)
			if w <= 0 || cell.G == "" {
				row[c] = ExpCell{G: "", W: 1, Style: st}
				c++
				continue
			}
			if c+w > m.Cols {
				overflow++
				w = m.Cols - c
			}
			row[c] = ExpCell{G: cell.G, W: w, Style: st}
			for i := 1; i < w; i++ {
				row[c+i] = ExpCell{W: 0, Style: st}
			}
			c += w
		}
		grid[r] = row
	}
	return grid, overflow
}

func colorIn(c refterm.Color, set []refterm.Color) bool {
	for _, s := range set {
		if s == c {
			return true
		}
	}
	return false
}

func styleMatches(got refterm.Style, want ExpStyle) string {
	switch {
	case !colorIn(got.Fg, want.Fg):
		return fmt.Sprintf("foreground %v, want one of %v", got.Fg, want.Fg)
	case !colorIn(got.Bg, want.Bg):
		return fmt.Sprintf("background %v, want one of %v", got.Bg, want.Bg)
	case got.Attrs != want.Attrs:
		return fmt.Sprintf("attributes %07b, want %07b", got.Attrs, want.Attrs)
	case got.UlStyle != want.UlStyle:
		return fmt.Sprintf("underline style %d, want %d", got.UlStyle, want.UlStyle)
	case got.UlStyle != 0 && !colorIn(got.Ul, want.Ul):
		return fmt.Sprintf("underline colour %v, want one of %v", got.Ul, want.Ul)
	case got.Link != want.Link:
		return fmt.Sprintf("hyperlink %q, want %q", got.Link, want.Link)
	case got.Link != "" && got.LinkParams != want.LinkP:
		return fmt.Sprintf("hyperlink params %q, want %q", got.LinkParams, want.LinkP)
	}
	return ""
}

// CompareGrid checks the reference terminal's active screen against the
// expected display, by span (DESIGN.md §2.2 a).  rowOff/colOff locate the
// expected grid inside the terminal (0,0 for full-screen checks).
func CompareGrid(t *refterm.Term, exp [][]ExpCell, rowOff, colOff int) string {
	cells := t.Grid()
	for r := range exp {
		tr := r + rowOff
		if tr < 0 || tr >= len(cells) {
			return fmt.Sprintf("expected row %d is outside the terminal (%d rows)", tr, len(cells))
		}
		for c := 0; c < len(exp[r]); c++ {
			e := exp[r][c]
			if e.W == 0 {
				continue
			}
			tc := c + colOff
			if tc < 0 || tc+e.W > len(cells[tr]) {
				return fmt.Sprintf("expected cell (%d,%d) is outside the terminal", tr, tc)
			}
			for k := 0; k < e.W; k++ {
				if p := cells[tr][tc+k].Poison; p != "" {
					return fmt.Sprintf("row %d col %d: terminal-specific result (%s); application set %q", tr, tc+k, p, e.G)
				}
			}
			got := cells[tr][tc]
			if got.W == 0 {
				return fmt.Sprintf("row %d col %d: shows the right half of a wide glyph, application set %q (w=%d)", tr, tc, e.G, e.W)
			}
			var sb strings.Builder
			for k := 0; k < e.W; k++ {
				g := cells[tr][tc+k].G
				if g == " " {
					g = ""
				}
				sb.WriteString(g)
			}
			want := e.G
			if want == " " {
				want = ""
			}
			if sb.String() != want {
				return fmt.Sprintf("row %d col %d: shows %q, application set %q (w=%d)", tr, tc, sb.String(), e.G, e.W)
			}
			// no glyph may straddle the right edge of the span
			if tc+e.W < len(cells[tr]) && cells[tr][tc+e.W].W == 0 {
				return fmt.Sprintf("row %d col %d: a glyph extends past the %d column(s) of %q", tr, tc, e.W, e.G)
			}
			for k := 0; k < e.W; k++ {
				if msg := styleMatches(cells[tr][tc+k].Style, e.Style); msg != "" {
					return fmt.Sprintf("row %d col %d (%q): %s", tr, tc+k, e.G, msg)
				}
			}
		}
	}
	return ""
}

// DumpRow renders a terminal row for diagnostics.
func DumpRow(t *refterm.Term, r int) string {
	var sb strings.Builder
	for _, c := range t.Grid()[r] {
		switch {
		case c.Poison != "":
			sb.WriteString("☠")
		case c.W == 0:
			sb.WriteString("<")
		case c.G == "":
			sb.WriteString("·")
		default:
			sb.WriteString(c.G)
		}
	}
	return sb.String()
}
