package model

import (
	"fmt"

	"verif/internal/refterm"
)

// CursorWant is the hardware cursor the application last requested.
type CursorWant struct {
	Visible  bool
	Col, Row int
	Shape    int
}

// CheckDisplay is the C01 oracle after one flush: grid, cursor, pen,
// hyperlink and synchronized-update nesting.
func CheckDisplay(t *refterm.Term, tc TermConfig, m *Mirror, cw CursorWant, what string) string {
	t.Lock()
	defer t.Unlock()
	exp, overflow := tc.Expected(m)
	if overflow > 0 {
		return "" // outside the domain (generator avoids it; replay files may not)
	}
	if t.Cols != m.Cols || t.Rows != m.Rows {
		return fmt.Sprintf("%s: harness error: terminal is %dx%d, mirror %dx%d", what, t.Cols, t.Rows, m.Cols, m.Rows)
	}
	if msg := CompareGrid(t, exp, 0, 0); msg != "" {
		return what + ": " + msg
	}
	if !t.Alt {
		return what + ": terminal is not on the alternate screen"
	}
	if cw.Visible {
		if !t.C.Visible {
			return fmt.Sprintf("%s: cursor hidden, application asked for it at (%d,%d)", what, cw.Col, cw.Row)
		}
		if t.C.Col != cw.Col || t.C.Row != cw.Row {
			return fmt.Sprintf("%s: cursor at col %d row %d, application asked for col %d row %d", what, t.C.Col, t.C.Row, cw.Col, cw.Row)
		}
		if t.C.Shape != cw.Shape {
			return fmt.Sprintf("%s: cursor shape %d, application asked for %d", what, t.C.Shape, cw.Shape)
		}
	} else if t.C.Visible {
		return what + ": cursor visible, application asked for it hidden"
	}
	pen := t.Pen
	if pen.Link != "" {
		return fmt.Sprintf("%s: hyperlink %q left open after the flush", what, pen.Link)
	}
	if (pen != refterm.Style{}) {
		return fmt.Sprintf("%s: pen not reset after the flush: %v", what, pen)
	}
	if t.SyncDepth != 0 || t.SyncMin < 0 || t.SyncMax > 1 {
		return fmt.Sprintf("%s: synchronized-update nesting unbalanced (depth %d, min %d, max %d)", what, t.SyncDepth, t.SyncMin, t.SyncMax)
	}
	return ""
}
