// Package appdrive runs a real vxfw.App (App.Run) on a faketty/refterm pair
// and synchronises with its event loop through sentinel events, never sleeps.
package appdrive

import (
	"fmt"
	"sync/atomic"
	"time"

	vaxis "git.sr.ht/~rockorager/vaxis"
	"git.sr.ht/~rockorager/vaxis/vxfw"

	"verif/internal/faketty"
	"verif/internal/refterm"
)

type sentinel struct{ n int64 }
type quit struct{}

// Root is the application's root widget. It captures the harness' sentinel
// and quit events and is otherwise transparent. With Passthrough it returns
// the child's surface unchanged; otherwise it is a layer of the screen's size
// with the child at (0,0).
type Root struct {
	Child       vxfw.Widget
	Passthrough bool
	// Log, when set, is called for every event the root itself is offered
	// (phase -1 = capture)
	Log func(ev vaxis.Event, phase int)
	// InitCmd, when set, is returned for the vxfw.Init event
	InitCmd func() vxfw.Command

	draws atomic.Int64
	seen  chan int64
	// LastCtx is the context of the most recent Draw
	LastCtx vxfw.DrawContext
	// DrawPanic is the recovered panic of the child's Draw, if any
	DrawPanic atomic.Value
}

func (r *Root) CaptureEvent(ev vaxis.Event) (vxfw.Command, error) {
	switch ev := ev.(type) {
	case sentinel:
		r.seen <- ev.n
		return vxfw.ConsumeEventCmd{}, nil
	case quit:
		return vxfw.BatchCmd{vxfw.ConsumeEventCmd{}, vxfw.QuitCmd{}}, nil
	}
	if r.Log != nil {
		r.Log(ev, -1)
	}
	return nil, nil
}

func (r *Root) HandleEvent(ev vaxis.Event, ph vxfw.EventPhase) (vxfw.Command, error) {
	if _, ok := ev.(vxfw.Init); ok && r.InitCmd != nil {
		return r.InitCmd(), nil
	}
	if r.Log != nil {
		r.Log(ev, int(ph))
	}
	return nil, nil
}

func (r *Root) Draw(ctx vxfw.DrawContext) (s vxfw.Surface, err error) {
	defer r.draws.Add(1)
	r.LastCtx = ctx
	defer func() {
		if p := recover(); p != nil {
			r.DrawPanic.Store(fmt.Sprint(p))
			s = vxfw.NewSurface(0, 0, r)
		}
	}()
	chS, err := r.Child.Draw(ctx)
	if err != nil || r.Passthrough {
		return chS, err
	}
	s = vxfw.NewSurface(ctx.Max.Width, ctx.Max.Height, r)
	s.AddChild(0, 0, chS)
	return s, nil
}

func (r *Root) Draws() int64 { return r.draws.Load() }

type App struct {
	TTY  *faketty.TTY
	Term *refterm.Term
	App  *vxfw.App
	Root *Root

	done chan error
	n    int64
}

// Start creates the terminal, the App and runs it with root as its widget.
// It returns after the first frame has been rendered.
func Start(cols, rows int, caps refterm.Caps, root *Root) (*App, error) {
	tty := faketty.New(cols, rows, caps)
	tty.Term.Strict = true
	tty.Capture = true
	root.seen = make(chan int64, 16)
	type res struct {
		a   *vxfw.App
		err error
	}
	ch := make(chan res, 1)
	go func() {
		a, err := vxfw.NewApp(vaxis.Options{WithConsole: tty, NoSignals: true, EventQueueSize: 4096})
		ch <- res{a, err}
	}()
	var app *vxfw.App
	select {
	case r := <-ch:
		if r.err != nil {
			return nil, r.err
		}
		app = r.a
	case <-time.After(10 * time.Second):
		return nil, fmt.Errorf("vxfw.NewApp did not return within 10s")
	}
	a := &App{TTY: tty, Term: tty.Term, App: app, Root: root, done: make(chan error, 1)}
	go func() {
		var err error
		defer func() {
			if p := recover(); p != nil {
				err = fmt.Errorf("panic in App.Run: %v", p)
			}
			a.done <- err
		}()
		err = app.Run(root)
	}()
	// Run lays the root out once before its loop; wait for that draw so
	// that it is not mistaken for a frame
	deadline := time.Now().Add(10 * time.Second)
	for root.Draws() < 1 {
		if _, done := a.Done(); done || time.Now().After(deadline) {
			return a, fmt.Errorf("App.Run did not lay out the root widget")
		}
		time.Sleep(200 * time.Microsecond)
	}
	if err := a.Sync(10 * time.Second); err != nil {
		return a, err
	}
	return a, nil
}

// Sync waits until every event posted so far has been handled.
func (a *App) Sync(d time.Duration) error {
	a.n++
	a.App.PostEvent(sentinel{a.n})
	t := time.NewTimer(d)
	defer t.Stop()
	for {
		select {
		case n := <-a.Root.seen:
			if n == a.n {
				return nil
			}
		case err := <-a.done:
			a.done <- err
			return fmt.Errorf("App.Run returned: %v", err)
		case <-t.C:
			return fmt.Errorf("event loop did not reach the sentinel within %v", d)
		}
	}
}

// Send posts an event and waits until it has been handled.
func (a *App) Send(ev vaxis.Event, d time.Duration) error {
	a.App.PostEvent(ev)
	return a.Sync(d)
}

// Frame forces a frame and waits until it is completely rendered.
func (a *App) Frame(d time.Duration) error {
	n0 := a.Root.Draws()
	a.App.PostEvent(vaxis.Redraw{})
	return a.AwaitFrame(n0, d)
}

// AwaitFrame waits for a frame after draw count n0 to be completely rendered.
func (a *App) AwaitFrame(n0 int64, d time.Duration) error {
	deadline := time.Now().Add(d)
	for a.Root.Draws() <= n0 {
		if time.Now().After(deadline) {
			return fmt.Errorf("no frame within %v", d)
		}
		select {
		case err := <-a.done:
			a.done <- err
			return fmt.Errorf("App.Run returned: %v", err)
		default:
		}
		time.Sleep(500 * time.Microsecond)
	}
	return a.Sync(d)
}

// Done reports whether Run has returned.
func (a *App) Done() (error, bool) {
	select {
	case err := <-a.done:
		a.done <- err
		return err, true
	default:
		return nil, false
	}
}

// Quit makes Run return and waits for it.
func (a *App) Quit(d time.Duration) error {
	if _, ok := a.Done(); ok {
		return nil
	}
	a.App.PostEvent(quit{})
	select {
	case err := <-a.done:
		a.done <- err
		return err
	case <-time.After(d):
		return fmt.Errorf("App.Run did not return within %v after QuitCmd", d)
	}
}
