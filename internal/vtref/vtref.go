// Package vtref is an independent, table-driven transcription of Paul
// Williams' DEC VT500 parser diagram (vt100.net/emu/dec_ansi_parser) plus the
// extensions the vaxis documentation states (colon sub-parameters, SS3, APC
// payloads, BEL-terminated OSC, suppression of the ST that ends a string,
// ESC DEL).  It shares no code with /repo/ansi.  DESIGN.md Appendix C.
package vtref

import (
	"fmt"
	"math"
	"strings"
	"unicode/utf8"
)

type Kind int

const (
	Text Kind = iota // a maximal run of printable runes in ground
	C0
	ESC
	SS3
	CSI
	OSC
	DCS
	APC
)

func (k Kind) String() string {
	return [...]string{"Text", "C0", "ESC", "SS3", "CSI", "OSC", "DCS", "APC"}[k]
}

// Rune is one decoded input unit: a valid scalar, or a raw invalid byte b
// represented (as the library documents) by the rune of the same value.
type Rune struct {
	R       rune
	End     int  // byte offset just after this unit in the stream
	Invalid bool // came from a byte that is not part of valid UTF-8
}

type Item struct {
	Kind   Kind
	Code   rune    // C0 code, SS3 rune, ESC/CSI/DCS final
	Inter  []rune  // intermediates incl. private marker
	Params [][]int // CSI: params with sub-params; DCS: one-element params
	Data   []rune  // OSC payload, DCS data, APC data
	Run    []Rune  // Text only
	End    int     // byte offset just after the item
	// OpenAtEOF marks a string item delivered only because input ended
	// while the string was still open (the VT500 has no EOF: optional).
	OpenAtEOF bool
}

func (it Item) String() string {
	switch it.Kind {
	case Text:
		var b strings.Builder
		for _, r := range it.Run {
			b.WriteRune(r.R)
		}
		return fmt.Sprintf("Text(%q)", b.String())
	case C0:
		return fmt.Sprintf("C0(%#x)", it.Code)
	case SS3:
		return fmt.Sprintf("SS3(%q)", it.Code)
	case ESC:
		return fmt.Sprintf("ESC(%q,%q)", string(it.Inter), it.Code)
	case CSI:
		return fmt.Sprintf("CSI(%q,%v,%q)", string(it.Inter), it.Params, it.Code)
	case OSC:
		return fmt.Sprintf("OSC(%q)", string(it.Data))
	case DCS:
		return fmt.Sprintf("DCS(%q,%v,%q,%q)", string(it.Inter), it.Params, it.Code, string(it.Data))
	case APC:
		return fmt.Sprintf("APC(%q)", string(it.Data))
	}
	return "?"
}

// Decode splits a byte stream into input units.
func Decode(b []byte) []Rune {
	out := make([]Rune, 0, len(b))
	for i := 0; i < len(b); {
		r, n := utf8.DecodeRune(b[i:])
		if r == utf8.RuneError && n <= 1 {
			out = append(out, Rune{R: rune(b[i]), End: i + 1, Invalid: true})
			i++
			continue
		}
		i += n
		out = append(out, Rune{R: r, End: i})
	}
	return out
}

type state int

const (
	sGround state = iota
	sEscape
	sEscInter
	sSS3
	sCsiEntry
	sCsiParam
	sCsiInter
	sCsiIgnore
	sDcsEntry
	sDcsParam
	sDcsInter
	sDcsPass
	sDcsIgnore
	sOsc
	sSosPm
	sApc
)

func (s state) isString() bool { return s >= sDcsEntry }

// Result of running the reference automaton over a whole stream.
type Result struct {
	Items []Item
	// Undefined is set when the stream left the domain on which the VT500
	// byte-level definition (plus the documented extensions) says what to
	// do: a scalar >= 0x80 inside an escape/CSI/DCS header, or a numeric
	// parameter that does not fit 63 bits.  UndefinedAt is the byte offset.
	Undefined   bool
	UndefinedAt int
	// Complete counts complete control sequences / strings, Cancelled the
	// sequences or strings that were aborted (CAN, SUB, ESC, or ignore).
	Complete  int
	Cancelled int
}

type machine struct {
	st       state
	inter    []rune
	params   []rune
	data     []rune
	dcsFinal rune
	dcsInter []rune
	dcsPar   [][]int
	// stTerminated: the previous unit was an ESC that ended a string state
	swallowST bool
	res       Result
	run       []Rune
	opt       Options
	// strUnits counts the units consumed by the string body states (osc,
	// sos/pm, apc, dcs-passthrough, dcs-ignore) since the string was entered
	strUnits int
}

// Options select recorded deviations of the implementation (known findings)
// so that the search can continue behind them.
type Options struct {
	// DeliverSTAfterEmptyString: known finding C02-A2.  The ESC \ that ends
	// a control string whose body is empty is delivered as ESC(\) instead
	// of being suppressed (pinned by the repository's own TestOSC/OSC_end_ST).
	DeliverSTAfterEmptyString bool
}

func in(r rune, lo, hi rune) bool { return r >= lo && r <= hi }

func isC0x(r rune) bool { return in(r, 0x00, 0x17) || r == 0x19 || in(r, 0x1c, 0x1f) }

func (m *machine) flushRun(end int) {
	if len(m.run) > 0 {
		m.res.Items = append(m.res.Items, Item{Kind: Text, Run: m.run, End: end})
		m.run = nil
	}
}

func (m *machine) emit(it Item) {
	m.res.Items = append(m.res.Items, it)
}

func (m *machine) undefined(at int) {
	if !m.res.Undefined {
		m.res.Undefined = true
		m.res.UndefinedAt = at
	}
}

func (m *machine) clear() {
	m.inter = nil
	m.params = nil
}

// parseParams splits parameter bytes on ';' and, when sub is true, on ':'.
func (m *machine) parseParams(sub bool, at int) [][]int {
	if len(m.params) == 0 {
		return nil
	}
	var out [][]int
	cur := []int{}
	v, digits := 0, 0
	for _, b := range m.params {
		switch {
		case b == ';':
			cur = append(cur, v)
			out = append(out, cur)
			cur = []int{}
			v, digits = 0, 0
		case b == ':' && sub:
			cur = append(cur, v)
			v, digits = 0, 0
		case sub:
			// control sequences: a value too large for an int
			// saturates; it can never be negative (a string of digits
			// denotes no negative number)
			if v > (math.MaxInt32-9)/10 {
				v = math.MaxInt32
			} else {
				v = v*10 + int(b-'0')
			}
		default:
			// device control strings: values beyond 18 digits are not
			// defined (the library reports an error and goes on)
			if digits >= 18 {
				m.undefined(at)
			}
			if v != 0 || b != '0' {
				digits++
			}
			v = v*10 + int(b-'0')
		}
	}
	cur = append(cur, v)
	out = append(out, cur)
	return out
}

// exit runs the exit action of the current state (string states only).
func (m *machine) exit(end int, atEOF bool) {
	switch m.st {
	case sOsc:
		m.emit(Item{Kind: OSC, Data: m.data, End: end, OpenAtEOF: atEOF})
		m.data = nil
	case sDcsPass:
		m.emit(Item{Kind: DCS, Code: m.dcsFinal, Inter: m.dcsInter, Params: m.dcsPar, Data: m.data, End: end, OpenAtEOF: atEOF})
		m.data = nil
	case sApc:
		m.emit(Item{Kind: APC, Data: m.data, End: end, OpenAtEOF: atEOF})
		m.data = nil
	}
}

func (m *machine) hook(final rune, at int) {
	m.dcsFinal = final
	m.dcsInter = m.inter
	m.dcsPar = m.parseParams(false, at)
	m.inter = nil
	m.data = nil
	m.st = sDcsPass
}

func (m *machine) step(u Rune) {
	r := u.R
	high := r >= 0x80
	// ---- anywhere
	if !u.Invalid || r < 0x80 {
		switch {
		case r == 0x18 || r == 0x1a:
			wasSeq := m.st != sGround
			m.flushRun(u.End - 1)
			m.exit(u.End, false)
			if wasSeq {
				m.res.Cancelled++
			}
			m.emit(Item{Kind: C0, Code: r, End: u.End})
			m.st = sGround
			m.swallowST = false
			m.strUnits = 0
			return
		case r == 0x1b:
			m.flushRun(u.End - 1)
			wasString := m.st.isString()
			if m.st != sGround && !wasString {
				m.res.Cancelled++
			}
			if wasString {
				m.res.Complete++ // ESC ends the string (ST's first half)
			}
			m.exit(u.End, false)
			m.clear()
			if m.st == sEscape && m.swallowST {
				// ESC ESC after a string: which ESC the ST belongs
				// to is not defined by the documented extension
				m.undefined(u.End)
			}
			m.st = sEscape
			m.swallowST = wasString
			if wasString && m.strUnits == 0 && m.opt.DeliverSTAfterEmptyString {
				m.swallowST = false
			}
			m.strUnits = 0
			return
		}
	}
	swallow := m.swallowST
	switch m.st {
	case sOsc, sSosPm, sApc, sDcsPass, sDcsIgnore:
		m.strUnits++
	}
	switch m.st {
	case sGround:
		if !high && isC0x(r) {
			m.flushRun(u.End - 1)
			m.emit(Item{Kind: C0, Code: r, End: u.End})
			return
		}
		m.run = append(m.run, u)
	case sEscape:
		switch {
		case high:
			m.undefined(u.End)
			m.st = sGround
		case isC0x(r):
			m.emit(Item{Kind: C0, Code: r, End: u.End})
			if swallow {
				// a C0 between the string-terminating ESC and its
				// backslash: not covered by the documented extension
				m.undefined(u.End)
			}
			return
		case in(r, 0x20, 0x2f):
			m.inter = append(m.inter, r)
			m.st = sEscInter
		case r == 0x4f:
			m.st = sSS3
		case r == 0x50:
			m.clear()
			m.st = sDcsEntry
		case r == 0x5b:
			m.clear()
			m.st = sCsiEntry
		case r == 0x5d:
			m.data = nil
			m.st = sOsc
		case r == 0x58 || r == 0x5e:
			m.st = sSosPm
		case r == 0x5f:
			m.data = nil
			m.st = sApc
		case r == 0x5c && swallow:
			m.st = sGround
		default: // 30-4E, 51-57, 59, 5A, 5C, 60-7E, and 7F (ext)
			m.emit(Item{Kind: ESC, Code: r, End: u.End})
			m.res.Complete++
			m.st = sGround
		}
		m.swallowST = false
	case sEscInter:
		switch {
		case high:
			m.undefined(u.End)
			m.st = sGround
		case isC0x(r):
			m.emit(Item{Kind: C0, Code: r, End: u.End})
		case in(r, 0x20, 0x2f):
			m.inter = append(m.inter, r)
		case r == 0x7f:
		default: // 30-7E
			m.emit(Item{Kind: ESC, Code: r, Inter: m.inter, End: u.End})
			m.inter = nil
			m.res.Complete++
			m.st = sGround
		}
	case sSS3:
		switch {
		case !high && isC0x(r):
			m.emit(Item{Kind: C0, Code: r, End: u.End})
		case r == 0x7f:
		default:
			m.emit(Item{Kind: SS3, Code: r, End: u.End})
			m.res.Complete++
			m.st = sGround
		}
	case sCsiEntry, sCsiParam, sCsiInter, sCsiIgnore:
		m.stepCSI(u)
	case sDcsEntry, sDcsParam, sDcsInter:
		m.stepDCSHeader(u)
	case sDcsPass:
		if r == 0x7f {
			return
		}
		m.data = append(m.data, r)
	case sDcsIgnore, sSosPm:
		// everything ignored until ESC/CAN/SUB
	case sOsc:
		switch {
		case r == 0x07:
			m.exit(u.End, false)
			m.res.Complete++
			m.st = sGround
		case !high && isC0x(r):
		default:
			m.data = append(m.data, r)
		}
	case sApc:
		if !high && isC0x(r) {
			return
		}
		m.data = append(m.data, r)
	}
}

func (m *machine) stepCSI(u Rune) {
	r := u.R
	if r >= 0x80 {
		m.undefined(u.End)
		m.st = sGround
		return
	}
	if isC0x(r) {
		m.emit(Item{Kind: C0, Code: r, End: u.End})
		return
	}
	if r == 0x7f {
		return
	}
	dispatch := func() {
		m.emit(Item{Kind: CSI, Code: r, Inter: m.inter, Params: m.parseParams(true, u.End), End: u.End})
		m.clear()
		m.res.Complete++
		m.st = sGround
	}
	switch m.st {
	case sCsiEntry:
		switch {
		case in(r, 0x30, 0x3b):
			m.params = append(m.params, r)
			m.st = sCsiParam
		case in(r, 0x3c, 0x3f):
			m.inter = append(m.inter, r)
			m.st = sCsiParam
		case in(r, 0x20, 0x2f):
			m.inter = append(m.inter, r)
			m.st = sCsiInter
		default:
			dispatch()
		}
	case sCsiParam:
		switch {
		case in(r, 0x30, 0x3b):
			m.params = append(m.params, r)
		case in(r, 0x3c, 0x3f):
			m.st = sCsiIgnore
		case in(r, 0x20, 0x2f):
			m.inter = append(m.inter, r)
			m.st = sCsiInter
		default:
			dispatch()
		}
	case sCsiInter:
		switch {
		case in(r, 0x20, 0x2f):
			m.inter = append(m.inter, r)
		case in(r, 0x30, 0x3f):
			m.st = sCsiIgnore
		default:
			dispatch()
		}
	case sCsiIgnore:
		if in(r, 0x40, 0x7e) {
			m.res.Cancelled++
			m.st = sGround
		}
	}
}

func (m *machine) stepDCSHeader(u Rune) {
	r := u.R
	if r >= 0x80 {
		m.undefined(u.End)
		m.st = sGround
		return
	}
	if isC0x(r) || r == 0x7f {
		return
	}
	switch m.st {
	case sDcsEntry:
		switch {
		case in(r, 0x20, 0x2f):
			m.inter = append(m.inter, r)
			m.st = sDcsInter
		case r == 0x3a:
			m.st = sDcsIgnore
		case in(r, 0x30, 0x39) || r == 0x3b:
			m.params = append(m.params, r)
			m.st = sDcsParam
		case in(r, 0x3c, 0x3f):
			m.inter = append(m.inter, r)
			m.st = sDcsParam
		default:
			m.hook(r, u.End)
		}
	case sDcsParam:
		switch {
		case in(r, 0x30, 0x39) || r == 0x3b:
			m.params = append(m.params, r)
		case r == 0x3a || in(r, 0x3c, 0x3f):
			m.st = sDcsIgnore
		case in(r, 0x20, 0x2f):
			m.inter = append(m.inter, r)
			m.st = sDcsInter
		default:
			m.hook(r, u.End)
		}
	case sDcsInter:
		switch {
		case in(r, 0x20, 0x2f):
			m.inter = append(m.inter, r)
		case in(r, 0x30, 0x3f):
			m.st = sDcsIgnore
		default:
			m.hook(r, u.End)
		}
	}
}

// Parse runs the reference automaton over the stream; EOF follows.
func Parse(b []byte) Result { return ParseOpt(b, Options{}) }

func ParseOpt(b []byte, opt Options) Result {
	m := &machine{opt: opt}
	us := Decode(b)
	for _, u := range us {
		m.step(u)
	}
	m.flushRun(len(b))
	// end of input: a string still open may or may not be delivered
	switch m.st {
	case sOsc, sDcsPass, sApc:
		m.exit(len(b), true)
	}
	return m.res
}

// Stream is the incremental form used by refterm: bytes arrive in arbitrary
// writes; completed items are returned as soon as they are complete (text is
// flushed at the end of every Feed, holding back only an incomplete scalar).
type Stream struct {
	m    machine
	pend []byte
	off  int
}

func NewStream() *Stream { return &Stream{} }

// InString reports whether the automaton is inside a control string or
// sequence (used to know whether a Write ended mid-sequence).
func (s *Stream) InSequence() bool { return s.m.st != sGround }

func (s *Stream) Feed(b []byte) []Item {
	buf := append(s.pend, b...)
	s.pend = nil
	i := 0
	for i < len(buf) {
		if !utf8.FullRune(buf[i:]) {
			// incomplete scalar at the end: hold it back
			s.pend = append([]byte{}, buf[i:]...)
			break
		}
		r, n := utf8.DecodeRune(buf[i:])
		if r == utf8.RuneError && n <= 1 {
			s.off++
			s.m.step(Rune{R: rune(buf[i]), End: s.off, Invalid: true})
			i++
			continue
		}
		i += n
		s.off += n
		s.m.step(Rune{R: r, End: s.off})
	}
	s.m.flushRun(s.off)
	out := s.m.res.Items
	s.m.res.Items = nil
	return out
}

// ParseSegments parses the concatenation of the segments; longGap[i] says that
// after segment i the input stays silent for longer than the Escape
// disambiguation delay.  If the automaton has just consumed an ESC at that
// point, the documented behaviour is: the Escape key is reported (C0 1B) and
// parsing continues from ground.
func ParseSegments(segs [][]byte, longGap []bool, opt Options) Result {
	m := &machine{opt: opt}
	off := 0
	var carry []byte
	lastESC := false
	for i, seg := range segs {
		buf := append(carry, seg...)
		carry = nil
		j := 0
		for j < len(buf) {
			if !utf8.FullRune(buf[j:]) && i+1 < len(segs) {
				carry = append([]byte{}, buf[j:]...)
				break
			}
			r, n := utf8.DecodeRune(buf[j:])
			if r == utf8.RuneError && n <= 1 {
				off++
				m.step(Rune{R: rune(buf[j]), End: off, Invalid: true})
				j++
				lastESC = false
				continue
			}
			j += n
			off += n
			m.step(Rune{R: r, End: off})
			lastESC = r == 0x1b
		}
		if i < len(longGap) && longGap[i] && lastESC && len(carry) == 0 && m.st == sEscape {
			m.emit(Item{Kind: C0, Code: 0x1b, End: off})
			m.st = sGround
			m.swallowST = false
			m.strUnits = 0
		}
	}
	m.flushRun(off)
	switch m.st {
	case sOsc, sDcsPass, sApc:
		m.exit(off, true)
	}
	return m.res
}
