#!/bin/bash
# Build the framework from files on disk only (offline).
set -e
cd "$(dirname "$0")"
export GOFLAGS=-mod=mod GOPROXY=off GOSUMDB=off GOTOOLCHAIN=local
mkdir -p bin evidence
go build -o bin/vcheck ./cmd/vcheck
echo "setup ok"
