// vcheck is the driver behind ./check: it rebuilds one check package from
// /repo's current working tree (build tag verif), runs it as shard processes,
// merges their part files into evidence/<ID>.json, and turns the outcome into
// the exit-code / VIOLATION / KNOWN-FINDING protocol.  DESIGN.md §2.1.
package main

import (
	"bytes"
	"encoding/binary"
	"encoding/json"
	"flag"
	"fmt"
	"os"
	"os/exec"
	"path/filepath"
	"regexp"
	"runtime"
	"sort"
	"strconv"
	"strings"
	"sync"
	"syscall"
	"time"

	"verif/internal/harness"
)

type tierCfg struct {
	Shards   int `json:"shards"`
	TimeoutS int `json:"timeout_s"`
	// Fuzz targets (thorough only): name -> seconds
	Fuzz map[string]int `json:"fuzz,omitempty"`
}

type checkCfg struct {
	Level       string             `json:"level"`
	Race        bool               `json:"race"`
	Rule        string             `json:"rule"`
	Assumptions []string           `json:"assumptions"`
	Tiers       map[string]tierCfg `json:"tiers"`
	MemMB       int                `json:"mem_mb"`
}

func root() string { return harness.Root() }

func main() {
	tier := flag.String("tier", "", "quick|thorough (default $VERIF_TIER or quick)")
	replay := flag.String("replay", "", "replay one stored case")
	shardsFlag := flag.Int("shards", 0, "override shard count")
	keep := flag.Bool("keep", false, "keep the work directory")
	flag.Usage = func() { fmt.Fprintln(os.Stderr, "usage: check [flags] <ID>"); flag.PrintDefaults() }
	// allow "check C01 --tier quick" as well as "check --tier quick C01"
	args := os.Args[1:]
	var id string
	var rest []string
	for _, a := range args {
		if id == "" && !strings.HasPrefix(a, "-") && len(a) >= 3 && (a[0] == 'C' || a[0] == 'c') {
			id = strings.ToUpper(a)
			continue
		}
		rest = append(rest, a)
	}
	_ = flag.CommandLine.Parse(rest)
	if id == "" {
		flag.Usage()
		os.Exit(2)
	}
	if *tier == "" {
		*tier = os.Getenv("VERIF_TIER")
	}
	if *tier != "thorough" {
		*tier = "quick"
	}
	seed := os.Getenv("VERIF_SEED")
	if seed == "" {
		seed = "1"
	}
	os.Exit(run(id, *tier, seed, *replay, *shardsFlag, *keep))
}

func scrubEnv() []string {
	var env []string
	for _, kv := range os.Environ() {
		k := kv
		if i := strings.IndexByte(kv, '='); i >= 0 {
			k = kv[:i]
		}
		switch {
		case k == "COLORTERM", k == "ASCIINEMA_REC", k == "TERM", strings.HasPrefix(k, "VAXIS_"):
			continue
		case k == "GOFLAGS", k == "GOPROXY", k == "GOSUMDB", k == "GOTOOLCHAIN":
			continue
		case strings.HasPrefix(k, "VERIF_SHARD"), k == "VERIF_WORK", k == "VERIF_REPLAY":
			continue
		}
		env = append(env, kv)
	}
	env = append(env, "GOFLAGS=-mod=mod", "GOPROXY=off", "GOSUMDB=off", "GOTOOLCHAIN=local", "TERM=dumb")
	return env
}

func run(id, tier, seed, replay string, shardsOverride int, keep bool) int {
	t0 := time.Now()
	pkgDir := filepath.Join(root(), "checks", strings.ToLower(id))
	var cfg checkCfg
	b, err := os.ReadFile(filepath.Join(pkgDir, "check.json"))
	if err != nil {
		fmt.Fprintf(os.Stderr, "no such check %s: %v\n", id, err)
		return 2
	}
	if err := json.Unmarshal(b, &cfg); err != nil {
		fmt.Fprintf(os.Stderr, "check.json: %v\n", err)
		return 2
	}
	tc := cfg.Tiers[tier]
	if tc.Shards == 0 {
		tc.Shards = 8
	}
	if tc.Shards > runtime.NumCPU() {
		tc.Shards = runtime.NumCPU()
	}
	if shardsOverride > 0 {
		tc.Shards = shardsOverride
	}
	if tc.TimeoutS == 0 {
		tc.TimeoutS = 900
	}
	if replay != "" {
		tc.Shards = 1
		if !filepath.IsAbs(replay) {
			replay, _ = filepath.Abs(replay)
		}
	}
	work := filepath.Join(root(), ".work", id+"-"+tier)
	if replay != "" {
		work += "-replay"
	}
	_ = os.RemoveAll(work)
	if err := os.MkdirAll(work, 0o755); err != nil {
		fmt.Fprintln(os.Stderr, err)
		return 2
	}
	if !keep {
		defer func() {
			// keep violations and logs, drop the big files
			files, _ := filepath.Glob(filepath.Join(work, "hashes-*.bin"))
			for _, f := range files {
				_ = os.Remove(f)
			}
			_ = os.Remove(filepath.Join(work, "c.test"))
		}()
	}
	if replay == "" {
		_ = os.RemoveAll(filepath.Join(root(), ".work", "violations", id))
	}
	env := scrubEnv()
	env = append(env, "VERIF_TIER="+tier, "VERIF_SEED="+seed, "VERIF_WORK="+work, "VERIF_ROOT="+root())

	// ---- a saved fuzz input (a worker died or hung on it): re-run it through the fuzz target
	if strings.HasSuffix(replay, ".fuzz") {
		return replayFuzz(id, replay, env, work)
	}

	// ---- build from /repo's current working tree
	bin := filepath.Join(work, "c.test")
	bargs := []string{"test", "-c", "-tags", "verif", "-vet=off", "-o", bin}
	if cfg.Race {
		bargs = append(bargs, "-race")
	}
	bargs = append(bargs, "./checks/"+strings.ToLower(id))
	cmd := exec.Command("go", bargs...)
	cmd.Dir = root()
	cmd.Env = env
	out, err := cmd.CombinedOutput()
	if err != nil {
		fmt.Printf("BUILD-FAILED property=%s (inconclusive)\n%s\n", id, out)
		return 2
	}

	// ---- run shards
	type res struct {
		code     int
		timedOut bool
		log      string
	}
	results := make([]res, tc.Shards)
	var wg sync.WaitGroup
	for i := 0; i < tc.Shards; i++ {
		wg.Add(1)
		go func(i int) {
			defer wg.Done()
			logPath := filepath.Join(work, fmt.Sprintf("shard-%d.log", i))
			lf, _ := os.Create(logPath)
			defer lf.Close()
			args := []string{"-test.timeout", fmt.Sprintf("%ds", tc.TimeoutS+60), "-test.v=false"}
			if replay != "" {
				args = append(args, "-test.run", "^TestReplay$", "-test.v")
			}
			c := exec.Command(bin, args...)
			c.Dir = pkgDir
			c.Env = append(append([]string{}, env...), fmt.Sprintf("VERIF_SHARD=%d/%d", i, tc.Shards))
			if replay != "" {
				c.Env = append(c.Env, "VERIF_REPLAY="+replay)
			}
			if cfg.Race {
				// race reports go to <work>/race-<shard>.<pid>; the check reads them after every case
				c.Env = append(c.Env, "GORACE=halt_on_error=0 log_path="+filepath.Join(work, fmt.Sprintf("race-%d", i)))
			}
			c.Stdout = lf
			c.Stderr = lf
			c.SysProcAttr = &syscall.SysProcAttr{Setpgid: true}
			if err := c.Start(); err != nil {
				results[i] = res{code: 2, log: logPath}
				return
			}
			done := make(chan error, 1)
			go func() { done <- c.Wait() }()
			select {
			case err := <-done:
				code := 0
				if err != nil {
					code = 3
					if ee, ok := err.(*exec.ExitError); ok {
						code = ee.ExitCode()
						if code < 0 {
							code = 3
						}
					}
				}
				results[i] = res{code: code, log: logPath}
			case <-time.After(time.Duration(tc.TimeoutS) * time.Second):
				_ = syscall.Kill(-c.Process.Pid, syscall.SIGKILL)
				<-done
				results[i] = res{code: 2, timedOut: true, log: logPath}
			}
		}(i)
	}
	wg.Wait()

	// ---- merge
	var parts []harness.Part
	inconclusive := false
	var crashViol []harness.Violation
	for i := 0; i < tc.Shards; i++ {
		pb, err := os.ReadFile(filepath.Join(work, fmt.Sprintf("part-%d.json", i)))
		if err == nil {
			var p harness.Part
			if json.Unmarshal(pb, &p) == nil {
				parts = append(parts, p)
				if results[i].code != 0 && len(p.Violations) == 0 {
					// test failed without a recorded violation: harness error
					fmt.Printf("INCONCLUSIVE shard %d failed (exit %d) without a recorded violation; see %s\n", i, results[i].code, results[i].log)
					tailLog(results[i].log)
					inconclusive = true
				}
				continue
			}
		}
		// no part file: the process died or timed out
		if results[i].timedOut {
			fmt.Printf("INCONCLUSIVE shard %d timed out after %ds; see %s\n", i, tc.TimeoutS, results[i].log)
			inconclusive = true
			continue
		}
		jb, jerr := os.ReadFile(filepath.Join(work, fmt.Sprintf("journal-%d.json", i)))
		logb, _ := os.ReadFile(results[i].log)
		died := bytes.Contains(logb, []byte("panic:")) || bytes.Contains(logb, []byte("fatal error:"))
		if jerr == nil && died {
			var e harness.Envelope
			_ = json.Unmarshal(jb, &e)
			msg := "process died while running the journaled case: " + firstPanicLine(logb)
			crashViol = append(crashViol, harness.Violation{Sub: e.Sub, Msg: msg, Case: jb})
			continue
		}
		fmt.Printf("INCONCLUSIVE shard %d exited %d without a part file or journal; see %s\n", i, results[i].code, results[i].log)
		tailLog(results[i].log)
		inconclusive = true
	}

	ev, viols, known, notes := merge(id, tier, seed, cfg, parts, work)
	viols = append(viols, crashViol...)

	// ---- native fuzz campaigns (thorough tier): coverage-guided, oracle inside the target
	if replay == "" && len(tc.Fuzz) > 0 {
		fz, fviols, finc := runFuzz(id, tc.Fuzz, env, work)
		ev["coverage"].(map[string]any)["fuzz"] = fz
		viols = append(viols, fviols...)
		if finc {
			inconclusive = true
		}
	}
	ev["wall_s"] = time.Since(t0).Seconds()
	ev["violations"] = len(viols)
	if replay == "" {
		_ = os.MkdirAll(filepath.Join(root(), "evidence"), 0o755)
		eb, _ := json.MarshalIndent(ev, "", " ")
		_ = os.WriteFile(filepath.Join(root(), "evidence", id+".json"), append(eb, '\n'), 0o644)
	}
	ids := make([]string, 0, len(known))
	for k := range known {
		ids = append(ids, k)
	}
	sort.Strings(ids)
	for _, k := range ids {
		fmt.Printf("KNOWN-FINDING: property=%s %s %s\n", id, k, known[k])
	}
	for _, n := range notes {
		fmt.Printf("NOTE: %s\n", n)
	}
	if len(viols) > 0 {
		vdir := filepath.Join(root(), ".work", "violations", id)
		_ = os.MkdirAll(vdir, 0o755)
		if len(viols) > 6 {
			fmt.Printf("NOTE: %d violations recorded; reporting the first 6\n", len(viols))
			viols = viols[:6]
		}
		for k, v := range viols {
			path := v.Replay
			if path == "" {
				path = filepath.Join(vdir, fmt.Sprintf("%s-seed%s-%d.json", sanitize(v.Sub), seed, k))
				if replay != "" {
					path = replay
				} else {
					_ = os.WriteFile(path, v.Case, 0o644)
				}
			}
			fmt.Printf("VIOLATION property=%s replay=%s\n", id, path)
			fmt.Printf("  sub-check %s: %s\n", v.Sub, oneLine(v.Msg, 600))
		}
		return 1
	}
	if inconclusive {
		return 2
	}
	fmt.Printf("OK property=%s tier=%s seed=%s evaluations=%v distinct_nontrivial=%v wall=%.1fs\n", id, tier, seed,
		ev["coverage"].(map[string]any)["evaluations"], ev["coverage"].(map[string]any)["distinct_nontrivial"], time.Since(t0).Seconds())
	return 0
}

var fuzzStat = regexp.MustCompile(`execs: (\d+) .*new interesting: (\d+) \(total: (\d+)\)`)

// runFuzz runs `go test -fuzz` for every configured target, one after the
// other (the fuzzer uses all cores). Go's fuzzer cannot be seeded: the saved
// failing input is the reproducible unit. Targets write a replay envelope for
// every input their oracle rejects into work/fuzz-violations.
func runFuzz(id string, targets map[string]int, env []string, work string) (map[string]any, []harness.Violation, bool) {
	out := map[string]any{}
	var viols []harness.Violation
	inconclusive := false
	names := make([]string, 0, len(targets))
	for n := range targets {
		names = append(names, n)
	}
	sort.Strings(names)
	pkg := "./checks/" + strings.ToLower(id)
	for _, name := range names {
		secs := targets[name]
		vdir := filepath.Join(work, "fuzz-violations", name)
		_ = os.RemoveAll(vdir)
		fwork := filepath.Join(work, "fuzz-work")
		_ = os.MkdirAll(fwork, 0o755)
		cmd := exec.Command("go", "test", "-tags", "verif", "-vet=off", "-run", "^$", "-fuzz", "^"+name+"$", "-fuzztime", fmt.Sprintf("%ds", secs), pkg)
		cmd.Dir = root()
		cmd.Env = append(append([]string{}, env...), "VERIF_SHARD=0/1", "VERIF_WORK="+fwork, "VERIF_FUZZ_DIR="+vdir)
		t0 := time.Now()
		b, err := cmd.CombinedOutput()
		_ = os.WriteFile(filepath.Join(work, "fuzz-"+name+".log"), b, 0o644)
		st := map[string]any{"seconds": int(time.Since(t0).Seconds()), "budget_s": secs}
		if ms := fuzzStat.FindAllSubmatch(b, -1); len(ms) > 0 {
			m := ms[len(ms)-1]
			st["execs"], _ = strconv.Atoi(string(m[1]))
			st["new_interesting"], _ = strconv.Atoi(string(m[2]))
			st["corpus"], _ = strconv.Atoi(string(m[3]))
		}
		files, _ := filepath.Glob(filepath.Join(vdir, "*.json"))
		sort.Strings(files)
		for _, f := range files {
			jb, _ := os.ReadFile(f)
			var e harness.Envelope
			_ = json.Unmarshal(jb, &e)
			viols = append(viols, harness.Violation{Sub: name, Msg: e.Note, Case: jb})
		}
		// the fuzzer leaves its crasher under the package's testdata. When
		// the oracle rejected the input the envelope above is what we keep;
		// when the worker died or hung (no envelope) the crasher itself is
		// kept as <target>__<name>.fuzz, replayable with --replay
		tdir := filepath.Join(root(), "checks", strings.ToLower(id), "testdata", "fuzz", name)
		if len(files) == 0 {
			crashers, _ := filepath.Glob(filepath.Join(tdir, "*"))
			for _, c := range crashers {
				cb, rerr := os.ReadFile(c)
				if rerr != nil {
					continue
				}
				keep := filepath.Join(root(), ".work", "violations", id, name+"__"+filepath.Base(c)+".fuzz")
				_ = os.MkdirAll(filepath.Dir(keep), 0o755)
				_ = os.WriteFile(keep, cb, 0o644)
				msg := "the fuzz worker died or hung on this input"
				for _, l := range strings.Split(string(b), "\n") {
					if strings.Contains(l, "fuzzing process hung or terminated") || strings.Contains(l, "panic:") || strings.Contains(l, "fatal error:") {
						msg += ": " + strings.TrimSpace(l)
						break
					}
				}
				viols = append(viols, harness.Violation{Sub: name, Msg: msg, Case: cb, Replay: keep})
				files = append(files, keep)
			}
		}
		_ = os.RemoveAll(tdir)
		st["failing_inputs"] = len(files)
		if err != nil && len(files) == 0 {
			fmt.Printf("INCONCLUSIVE fuzz target %s failed without a recorded case; see %s\n", name, filepath.Join(work, "fuzz-"+name+".log"))
			tailLog(filepath.Join(work, "fuzz-"+name+".log"))
			inconclusive = true
		}
		out[name] = st
	}
	return out, viols, inconclusive
}

// replayFuzz re-runs one saved fuzz input (<target>__<name>.fuzz) through its
// target.
func replayFuzz(id, path string, env []string, work string) int {
	base := strings.TrimSuffix(filepath.Base(path), ".fuzz")
	i := strings.Index(base, "__")
	if i < 0 {
		fmt.Fprintf(os.Stderr, "%s: not <target>__<name>.fuzz\n", path)
		return 2
	}
	target := base[:i]
	cb, err := os.ReadFile(path)
	if err != nil {
		fmt.Fprintln(os.Stderr, err)
		return 2
	}
	tdir := filepath.Join(root(), "checks", strings.ToLower(id), "testdata", "fuzz", target)
	_ = os.MkdirAll(tdir, 0o755)
	defer os.RemoveAll(filepath.Join(root(), "checks", strings.ToLower(id), "testdata"))
	if err := os.WriteFile(filepath.Join(tdir, "replay"), cb, 0o644); err != nil {
		fmt.Fprintln(os.Stderr, err)
		return 2
	}
	cmd := exec.Command("go", "test", "-tags", "verif", "-vet=off", "-timeout", "300s", "-run", "^"+target+"$/^replay$", "./checks/"+strings.ToLower(id))
	cmd.Dir = root()
	cmd.Env = append(append([]string{}, env...), "VERIF_SHARD=0/1", "VERIF_WORK="+work)
	out, err := cmd.CombinedOutput()
	if err != nil {
		fmt.Printf("VIOLATION property=%s replay=%s\n", id, path)
		lines := strings.Split(strings.TrimSpace(string(out)), "\n")
		if len(lines) > 12 {
			lines = lines[:12]
		}
		fmt.Printf("  sub-check %s: %s\n", target, oneLine(strings.Join(lines, "\n"), 900))
		return 1
	}
	fmt.Printf("OK property=%s replay=%s\n", id, path)
	return 0
}

func sanitize(s string) string {
	var b strings.Builder
	for _, r := range s {
		if (r >= 'a' && r <= 'z') || (r >= 'A' && r <= 'Z') || (r >= '0' && r <= '9') || r == '-' || r == '_' {
			b.WriteRune(r)
		} else {
			b.WriteByte('_')
		}
	}
	if b.Len() == 0 {
		return "case"
	}
	return b.String()
}

func oneLine(s string, max int) string {
	s = strings.ReplaceAll(s, "\n", " | ")
	if len(s) > max {
		s = s[:max] + "…"
	}
	return s
}

func firstPanicLine(b []byte) string {
	for _, l := range strings.Split(string(b), "\n") {
		if strings.HasPrefix(l, "panic:") || strings.HasPrefix(l, "fatal error:") {
			return l
		}
	}
	return "(no panic line)"
}

func tailLog(path string) {
	b, _ := os.ReadFile(path)
	lines := strings.Split(strings.TrimRight(string(b), "\n"), "\n")
	if len(lines) > 25 {
		lines = lines[len(lines)-25:]
	}
	for _, l := range lines {
		fmt.Println("    | " + l)
	}
}

func merge(id, tier, seed string, cfg checkCfg, parts []harness.Part, work string) (map[string]any, []harness.Violation, map[string]string, []string) {
	var evals int64
	labels := map[string]map[string]int64{}
	excluded := map[string]int64{}
	subEvals := map[string]int64{}
	var samples []any
	sampleCount := map[string]int{}
	exhaustive := map[string]bool{}
	var viols []harness.Violation
	known := map[string]string{}
	var notes []string
	noteSeen := map[string]bool{}
	capped := false
	hashes := map[uint64]struct{}{}
	for _, p := range parts {
		capped = capped || p.HashCapped
		for name, s := range p.Subs {
			evals += s.Evals
			subEvals[name] += s.Evals
			if labels[name] == nil {
				labels[name] = map[string]int64{}
			}
			for l, n := range s.Labels {
				labels[name][l] += n
			}
			for l, n := range s.Excluded {
				excluded[name+": "+l] += n
			}
			for _, smp := range s.Samples {
				if sampleCount[name] < 3 {
					samples = append(samples, map[string]any{"sub": name, "case": smp})
					sampleCount[name]++
				}
			}
			if s.Exhaust {
				exhaustive[name] = true
			}
		}
		viols = append(viols, p.Violations...)
		for k, v := range p.Known {
			known[k] = v
		}
		for _, n := range p.Notes {
			if !noteSeen[n] {
				noteSeen[n] = true
				notes = append(notes, n)
			}
		}
		hb, err := os.ReadFile(p.HashFile)
		if err == nil {
			for i := 0; i+8 <= len(hb); i += 8 {
				hashes[binary.LittleEndian.Uint64(hb[i:])] = struct{}{}
			}
		}
	}
	var exh []string
	for k := range exhaustive {
		exh = append(exh, k)
	}
	sort.Strings(exh)
	seedN := int64(0)
	fmt.Sscan(seed, &seedN)
	rule := cfg.Rule
	if capped {
		rule += " (distinct count capped per shard; the number is a lower bound)"
	}
	level := cfg.Level
	if level == "" {
		level = "exploration"
	}
	if len(samples) == 0 {
		samples = []any{"(no sample recorded)"}
	}
	cov := map[string]any{
		"evaluations":          evals,
		"distinct_nontrivial":  len(hashes),
		"rule":                 rule,
		"samples":              samples,
		"per_subcheck":         subEvals,
		"labels":               labels,
		"excluded_known":       excluded,
		"exhaustive_subchecks": exh,
		"shards":               len(parts),
	}
	ev := map[string]any{
		"property_id": id,
		"tier":        tier,
		"seed":        seedN,
		"level":       level,
		"coverage":    cov,
		"assumptions": cfg.Assumptions,
	}
	return ev, viols, known, notes
}
