package c10

import (
	"fmt"
	"os"
	"path/filepath"
	"regexp"
	"runtime"
	"sort"
	"strconv"
	"strings"
	"sync"
	"sync/atomic"
	"testing"
	"time"

	vaxis "git.sr.ht/~rockorager/vaxis"
	"git.sr.ht/~rockorager/vaxis/widgets/spinner"
	"pgregory.net/rapid"

	"verif/internal/faketty"
	"verif/internal/harness"
	"verif/internal/refterm"
	"verif/internal/vxdrive"
)

func TestMain(m *testing.M) { harness.Main(m, "C10") }

// ---------------------------------------------------------------------------
// race reports: the driver points GORACE's log_path at <work>/race-<shard>;
// the runtime appends ".<pid>"

var raceOff int64

func raceLogPath() string {
	work := os.Getenv("VERIF_WORK")
	if work == "" {
		return ""
	}
	i, _ := harness.Shard()
	return filepath.Join(work, fmt.Sprintf("race-%d.%d", i, os.Getpid()))
}

var frameRe = regexp.MustCompile(`(?m)^  ([^\s(]+)\(.*\n\s+(\S+):(\d+)`)

// newRaces returns the reports written since the last call, each reduced to
// the pair of access sites.
func newRaces() []string {
	p := raceLogPath()
	if p == "" {
		return nil
	}
	b, err := os.ReadFile(p)
	if err != nil || int64(len(b)) <= raceOff {
		return nil
	}
	txt := string(b[raceOff:])
	raceOff = int64(len(b))
	var out []string
	for _, rep := range strings.Split(txt, "WARNING: DATA RACE")[1:] {
		// the first frame after each access header
		var sites []string
		for _, part := range regexp.MustCompile(`(?m)^(Read|Write|Previous read|Previous write|Previous atomic read|Previous atomic write|Atomic read|Atomic write) at .*$`).Split(rep, -1)[1:] {
			if m := frameRe.FindStringSubmatch(part); m != nil {
				fn := m[1]
				if i := strings.LastIndex(fn, "/"); i >= 0 {
					fn = fn[i+1:]
				}
				sites = append(sites, fmt.Sprintf("%s (%s:%s)", fn, filepath.Base(m[2]), m[3]))
			}
			if len(sites) == 2 {
				break
			}
		}
		sort.Strings(sites)
		out = append(out, strings.Join(sites, " <-> "))
	}
	return out
}

// ---------------------------------------------------------------------------
// goroutine census

var goroutineHdr = regexp.MustCompile(`(?m)^goroutine (\d+) \[([^\]]*)\]:$`)

// libraryGoroutines lists goroutines created by the library (their creation
// site is in the vaxis module) that are still alive.
func libraryGoroutines() []string {
	buf := make([]byte, 1<<20)
	n := runtime.Stack(buf, true)
	var out []string
	for _, g := range strings.Split(string(buf[:n]), "\n\n") {
		i := strings.LastIndex(g, "created by ")
		if i < 0 {
			continue
		}
		creator := g[i:]
		if strings.Contains(creator, "git.sr.ht/~rockorager/vaxis") && !strings.Contains(creator, "verif/") {
			first := strings.SplitN(g, "\n", 3)
			line := strings.SplitN(creator, "\n", 2)[0]
			state := ""
			if m := goroutineHdr.FindStringSubmatch(first[0]); m != nil {
				state = m[2]
			}
			top := ""
			if len(first) > 1 {
				top = first[1]
			}
			out = append(out, fmt.Sprintf("%s, %s, at %s", line, state, top))
		}
	}
	sort.Strings(out)
	return out
}

func awaitNoLibraryGoroutines(baseline []string, d time.Duration) []string {
	deadline := time.Now().Add(d)
	for {
		cur := libraryGoroutines()
		extra := diff(cur, baseline)
		if len(extra) == 0 || time.Now().After(deadline) {
			return extra
		}
		time.Sleep(5 * time.Millisecond)
	}
}

func diff(cur, base []string) []string {
	cnt := map[string]int{}
	for _, b := range base {
		cnt[creatorOf(b)]++
	}
	var out []string
	for _, c := range cur {
		k := creatorOf(c)
		if cnt[k] > 0 {
			cnt[k]--
			continue
		}
		out = append(out, c)
	}
	return out
}

func creatorOf(s string) string { return strings.SplitN(s, ",", 2)[0] }

func stacks() string {
	buf := make([]byte, 1<<20)
	n := runtime.Stack(buf, true)
	var keep []string
	for _, g := range strings.Split(string(buf[:n]), "\n\n") {
		if strings.Contains(g, "rockorager/vaxis") {
			lines := strings.Split(g, "\n")
			if len(lines) > 9 {
				lines = lines[:9]
			}
			keep = append(keep, strings.Join(lines, "\n"))
		}
	}
	return strings.Join(keep, "\n--\n")
}

// ---------------------------------------------------------------------------
// scenario

type Action struct {
	K string `json:"k"` // post postblock sync resize queryfg querybg querycolor spin yield sleep
	N int    `json:"n,omitempty"`
}

type Chunk struct {
	// Bytes is a Go-quoted string so that invalid UTF-8 survives JSON
	Bytes string `json:"bytes"`
	GapUS int    `json:"gap_us"`
}

func (c Chunk) raw() string {
	if s, err := strconv.Unquote(c.Bytes); err == nil {
		return s
	}
	return c.Bytes
}

type Scenario struct {
	Queue       int        `json:"queue"` // 0 = default
	Producers   [][]Action `json:"producers"`
	Input       []Chunk    `json:"input"`
	RenderEvery int        `json:"render_every"`
	// SuspendAt: after this many handled events the main goroutine calls
	// Suspend then Resume (0 = never)
	SuspendAt int `json:"suspend_at,omitempty"`
	// QueryAt: after this many handled events the main goroutine asks for
	// the cursor position; CPR: prompt late never
	QueryAt   int    `json:"query_at,omitempty"`
	CPR       string `json:"cpr,omitempty"`
	SpinnerUS int    `json:"spinner_us,omitempty"`
	// End: close (after the producers), close-early (while input is still
	// arriving), suspend-close
	End string `json:"end"`
	// EscBeforeEnd: a lone ESC is injected right before the end so that the
	// parser's timer is pending
	EscBeforeEnd bool `json:"esc_before_end,omitempty"`
}

type seqEvent struct{ p, n int }

const watchdog = 20 * time.Second

func runScenario(sc Scenario) string {
	newRaces() // drop reports of harness start-up, if any
	baseline := libraryGoroutines()
	caps := refterm.Caps{RGB: true, Unicode2027: true, Sync2026: true, KittyKbd: true, OSC4: true, OSC10: true, OSC11: true, Color2031: true}
	tty := faketty.New(40, 12, caps)
	var heldMu sync.Mutex
	var held [][]byte
	mode := sc.CPR
	var started atomic.Bool
	tty.Term.Hold = func(kind string, reply []byte) bool {
		if kind != "cpr" || !started.Load() {
			return false
		}
		switch mode {
		case "late":
			heldMu.Lock()
			held = append(held, append([]byte(nil), reply...))
			heldMu.Unlock()
			return true
		case "never":
			return true
		}
		return false
	}
	s, err := vxdrive.StartOn(tty, vxdrive.Opts{QueueSize: sc.Queue})
	if err != nil {
		return "harness: " + err.Error()
	}
	vx := s.Vx
	started.Store(true)

	var mu sync.Mutex
	delivered := map[int][]int{} // producer -> sequence numbers in delivery order
	syncRan := map[[2]int]int{}
	type sent struct {
		n        int
		blocking bool
	}
	posted := make([][]sent, len(sc.Producers))

	var sp *spinner.Model
	if sc.SpinnerUS > 0 {
		sp = spinner.New(vx, time.Duration(sc.SpinnerUS)*time.Microsecond)
	}

	// queries need the terminal: not while the application has handed it
	// back (Suspend/Resume mid-run)
	queriesOK := sc.SuspendAt == 0

	// ---- producers
	var wg sync.WaitGroup
	for p, acts := range sc.Producers {
		wg.Add(1)
		go func(p int, acts []Action) {
			defer wg.Done()
			seq := 0
			for _, a := range acts {
				switch a.K {
				case "post":
					seq++
					posted[p] = append(posted[p], sent{seq, false})
					vx.PostEvent(seqEvent{p, seq})
				case "postblock":
					seq++
					posted[p] = append(posted[p], sent{seq, true})
					vx.PostEventBlocking(seqEvent{p, seq})
				case "sync":
					seq++
					n := seq
					vx.SyncFunc(func() {
						mu.Lock()
						syncRan[[2]int{p, n}]++
						mu.Unlock()
					})
				case "resize":
					vx.Resize()
				case "queryfg":
					if queriesOK {
						vx.QueryForeground()
					}
				case "querybg":
					if queriesOK {
						vx.QueryBackground()
					}
				case "querycolor":
					if queriesOK {
						vx.QueryColor(vaxis.IndexColor(uint8(a.N)))
					}
				case "spin":
					if sp != nil {
						sp.Toggle()
					}
				case "yield":
					runtime.Gosched()
				case "sleep":
					time.Sleep(time.Duration(a.N) * time.Microsecond)
				}
			}
		}(p, acts)
	}
	producersDone := make(chan struct{})
	go func() { wg.Wait(); close(producersDone) }()

	// ---- input
	inputDone := make(chan struct{})
	stopInput := make(chan struct{})
	go func() {
		defer close(inputDone)
		for _, c := range sc.Input {
			select {
			case <-stopInput:
				return
			default:
			}
			tty.InjectString(c.raw())
			if c.GapUS > 0 {
				time.Sleep(time.Duration(c.GapUS) * time.Microsecond)
			} else {
				runtime.Gosched()
			}
		}
	}()

	// ---- main goroutine: the application's event loop
	type result struct{ msg string }
	mainDone := make(chan result, 1)
	var phase atomic.Value
	phase.Store("event loop")
	go func() {
		handled := 0
		probing := false
		win := vx.Window()
		handle := func(ev vaxis.Event) string {
			handled++
			switch ev := ev.(type) {
			case seqEvent:
				mu.Lock()
				delivered[ev.p] = append(delivered[ev.p], ev.n)
				mu.Unlock()
			case vaxis.SyncFunc:
				ev()
			case vaxis.Resize:
				win = vx.Window()
			}
			if sc.RenderEvery > 0 && handled%sc.RenderEvery == 0 {
				win.Clear()
				win.Print(vaxis.Segment{Text: fmt.Sprintf("frame %d", handled)})
				if sp != nil {
					sp.Draw(win.New(0, 1, 1, 1))
				}
				vx.Render()
			}
			if probing {
				// no Suspend while the probe keys are on their way: input
				// which arrives while the terminal is handed back is not
				// the application's
				return ""
			}
			if sc.SuspendAt > 0 && handled == sc.SuspendAt {
				phase.Store("Suspend (mid-run)")
				if err := vx.Suspend(); err != nil {
					return "Suspend: " + err.Error()
				}
				phase.Store("Resume")
				if err := vx.Resume(); err != nil {
					return "Resume: " + err.Error()
				}
				phase.Store("event loop")
			}
			if sc.QueryAt > 0 && handled == sc.QueryAt {
				phase.Store("CursorPosition")
				vx.CursorPosition()
				phase.Store("event loop")
				if mode == "late" {
					heldMu.Lock()
					for _, r := range held {
						tty.Inject(r)
					}
					held = nil
					heldMu.Unlock()
				}
			}
			return ""
		}
		pd, id := producersDone, inputDone
		if sc.End == "close-early" {
			// do not wait for the input to end
			id = nil
			closed := make(chan struct{})
			close(closed)
			id = closed
		}
		for pd != nil || id != nil {
			select {
			case ev := <-vx.Events():
				if m := handle(ev); m != "" {
					mainDone <- result{m}
					return
				}
			case <-pd:
				pd = nil
			case <-id:
				id = nil
			}
		}
		// drain what is already queued (blocking posts have all returned)
		for {
			select {
			case ev := <-vx.Events():
				if m := handle(ev); m != "" {
					mainDone <- result{m}
					return
				}
				continue
			default:
			}
			break
		}
		if sp != nil {
			// the application stops its spinner before it leaves: the
			// queue is empty now, so the queued stop cannot be dropped
			stopped := false
			vx.SyncFunc(func() { stopped = true })
			sp.Stop()
			deadline := time.After(watchdog / 2)
			for !stopped {
				select {
				case ev := <-vx.Events():
					if m := handle(ev); m != "" {
						mainDone <- result{m}
						return
					}
				case <-deadline:
					mainDone <- result{"harness: the queued spinner stop was never delivered"}
					return
				}
			}
			// Stop was queued after the marker
			for i := 0; i < 64; i++ {
				select {
				case ev := <-vx.Events():
					handle(ev)
					continue
				default:
				}
				break
			}
		}
		if sc.End != "close-early" {
			// the input still works: a modified F3 (which looks like a
			// cursor report) and a letter arrive as two key events
			phase.Store("probe keys after the scenario")
			probing = true
			tty.InjectString("\x1b[1;2R")
			tty.InjectString("z")
			sawF3 := false
			deadline := time.After(watchdog / 2)
		probe:
			for {
				select {
				case ev := <-vx.Events():
					if k, ok := ev.(vaxis.Key); ok {
						if k.Keycode == vaxis.KeyF03 && k.Modifiers&vaxis.ModShift != 0 {
							sawF3 = true
						}
						if k.Text == "R" {
							// the parser's 10 ms escape timer fired between the
							// ESC and the rest (CPU starvation): the bytes
							// arrived as an Escape key and plain text. Not
							// lost, and not what this probe is about
							sawF3 = true
							harness.R.Label("stress", "probe split by the escape timer")
						}
						if k.Keycode == 'z' {
							break probe
						}
					}
					if m := handle(ev); m != "" {
						mainDone <- result{m}
						return
					}
				case <-deadline:
					mainDone <- result{"lost events: the keys injected after the scenario (Shift+F3 as CSI 1;2 R, then z) were not delivered"}
					return
				}
			}
			if !sawF3 {
				mainDone <- result{"lost event: Shift+F3 (CSI 1;2 R) injected after the scenario was not delivered, the z behind it was"}
				return
			}
			phase.Store("event loop")
		}
		if sc.EscBeforeEnd {
			tty.InjectString("\x1b")
		}
		switch sc.End {
		case "suspend-close":
			phase.Store("Suspend (final)")
			if err := vx.Suspend(); err != nil {
				mainDone <- result{"Suspend: " + err.Error()}
				return
			}
			phase.Store("Close after Suspend")
			vx.Close()
		default:
			phase.Store("Close")
			vx.Close()
		}
		phase.Store("done")
		mainDone <- result{""}
	}()

	var msg string
	select {
	case r := <-mainDone:
		msg = r.msg
	case <-time.After(watchdog):
		ph := phase.Load().(string)
		st := stacks()
		// leave the wedged instance behind; nothing more can be said
		close(stopInput)
		return fmt.Sprintf("deadlock: the main goroutine has been in %q for %v\n%s", ph, watchdog, st)
	}
	close(stopInput)
	tty.EndInput()
	<-inputDone
	if msg != "" {
		return msg
	}
	if races := newRaces(); len(races) > 0 {
		return "data race: " + strings.Join(uniq(races), "; ")
	}

	// ---- delivery: order preserved, blocking posts never dropped
	mu.Lock()
	defer mu.Unlock()
	for p := range sc.Producers {
		got := delivered[p]
		for i := 1; i < len(got); i++ {
			if got[i] <= got[i-1] {
				return fmt.Sprintf("producer %d: events delivered out of order or twice: %v", p, got)
			}
		}
		seen := map[int]bool{}
		for _, n := range got {
			seen[n] = true
		}
		for _, sn := range posted[p] {
			if sn.blocking && !seen[sn.n] {
				return fmt.Sprintf("producer %d: blocking post %d was never delivered (delivered: %v)", p, sn.n, got)
			}
		}
		valid := map[int]bool{}
		for _, sn := range posted[p] {
			valid[sn.n] = true
		}
		for _, n := range got {
			if !valid[n] {
				return fmt.Sprintf("producer %d: event %d delivered but never posted", p, n)
			}
		}
	}
	for k, n := range syncRan {
		if n > 1 {
			return fmt.Sprintf("producer %d: queued function %d ran %d times", k[0], k[1], n)
		}
	}

	// ---- nothing started by the library is left
	if extra := awaitNoLibraryGoroutines(baseline, 3*time.Second); len(extra) > 0 {
		return fmt.Sprintf("after %s returned, goroutines started by the library are still alive: %s", sc.End, strings.Join(extra, " | "))
	}
	if races := newRaces(); len(races) > 0 {
		return "data race: " + strings.Join(uniq(races), "; ")
	}
	return ""
}

func uniq(l []string) []string {
	m := map[string]bool{}
	var out []string
	for _, x := range l {
		if !m[x] {
			m[x] = true
			out = append(out, x)
		}
	}
	sort.Strings(out)
	return out
}

var inputChunks = []string{
	"a", "b", "\x1b", "\x1b[A", "\x1b[", "A", "\x1bOP", "\x1b[200~", "pasted", "\x1b[201~",
	"\x1b[<0;3;4M", "\x1b[<0;3;4m", "\x1b[I", "\x1b[O", "\x1b[1;2R", "\x1b[97;5u", "é", "\xc3", "\xa9",
	"\x1b]11;rgb:0000/0000/0000\x1b\\", "\x1b[?997;1n", "\x1bP1+r524742\x1b\\", "\x1b[5;7R",
}

func genScenario(rt *rapid.T) Scenario {
	sc := Scenario{
		Queue:       rapid.SampledFrom([]int{0, 0, 4, 16}).Draw(rt, "queue"),
		RenderEvery: rapid.SampledFrom([]int{0, 1, 1, 3}).Draw(rt, "render"),
		End:         rapid.SampledFrom([]string{"close", "close", "close-early", "suspend-close"}).Draw(rt, "end"),
	}
	sc.EscBeforeEnd = rapid.Bool().Draw(rt, "esc-before-end")
	np := rapid.IntRange(1, 4).Draw(rt, "nproducers")
	for p := 0; p < np; p++ {
		var acts []Action
		k := rapid.IntRange(1, 30).Draw(rt, "nacts")
		for i := 0; i < k; i++ {
			a := Action{K: rapid.SampledFrom([]string{"post", "post", "postblock", "postblock", "sync", "resize", "queryfg", "querybg", "querycolor", "yield", "sleep", "spin"}).Draw(rt, "act")}
			if a.K == "sleep" {
				a.N = rapid.SampledFrom([]int{1, 50, 500, 3000}).Draw(rt, "us")
			}
			if a.K == "querycolor" {
				a.N = rapid.IntRange(0, 15).Draw(rt, "colour")
			}
			acts = append(acts, a)
		}
		sc.Producers = append(sc.Producers, acts)
	}
	ni := rapid.IntRange(0, 25).Draw(rt, "nchunks")
	for i := 0; i < ni; i++ {
		sc.Input = append(sc.Input, Chunk{
			Bytes: strconv.QuoteToASCII(rapid.SampledFrom(inputChunks).Draw(rt, "chunk")),
			GapUS: rapid.SampledFrom([]int{0, 0, 100, 2000, 9000, 11000}).Draw(rt, "gap"),
		})
	}
	if rapid.IntRange(0, 2).Draw(rt, "suspend") == 1 {
		sc.SuspendAt = rapid.IntRange(1, 12).Draw(rt, "suspend-at")
	}
	if rapid.IntRange(0, 2).Draw(rt, "query") == 1 {
		sc.QueryAt = rapid.IntRange(1, 12).Draw(rt, "query-at")
		sc.CPR = rapid.SampledFrom([]string{"prompt", "late", "never"}).Draw(rt, "cpr")
	}
	if rapid.IntRange(0, 2).Draw(rt, "spinner") == 1 {
		sc.SpinnerUS = rapid.SampledFrom([]int{200, 1000, 5000}).Draw(rt, "spinner-us")
	}
	return sc
}

func TestStress(t *testing.T) {
	const sub = "stress"
	n := harness.PerShard(harness.Scale(2_500, 120_000))
	harness.Check(t, sub, n, func(rt *rapid.T) Case {
		sc := genScenario(rt)
		cc := Case{Stress: &sc}
		blocking := 0
		for _, p := range sc.Producers {
			for _, a := range p {
				if a.K == "postblock" {
					blocking++
				}
			}
		}
		if len(sc.Producers) >= 2 && blocking > 0 && len(sc.Input) > 0 {
			harness.R.Nontrivial(sub, cc)
		}
		harness.R.Label(sub, "end "+sc.End)
		if sc.SuspendAt > 0 {
			harness.R.Label(sub, "suspend/resume mid-run")
		}
		if sc.QueryAt > 0 {
			harness.R.Label(sub, "query, reply "+sc.CPR)
		}
		if sc.Queue > 0 {
			harness.R.Label(sub, "small queue")
		}
		harness.R.Sample(sub, cc)
		return cc
	}, run)
}

// ---------------------------------------------------------------------------

type Case struct {
	Stress *Scenario `json:"stress,omitempty"`
}

func run(c Case) string {
	if c.Stress != nil {
		return runScenario(*c.Stress)
	}
	return ""
}

func TestReplay(t *testing.T) {
	r := harness.Decode(run)
	harness.ReplayAll(t, map[string]harness.Runner{"stress": r})
}
