package c16

import (
	"fmt"
	"math"
	"strings"
	"testing"
	"time"

	vaxis "git.sr.ht/~rockorager/vaxis"
	"git.sr.ht/~rockorager/vaxis/vxfw"
	"git.sr.ht/~rockorager/vaxis/vxfw/richtext"
	"git.sr.ht/~rockorager/vaxis/vxfw/text"
	"pgregory.net/rapid"

	"verif/internal/harness"
)

func TestMain(m *testing.M) { harness.Main(m, "C16") }

type Case struct {
	Text  []string `json:"text"` // clusters
	Width int      `json:"width"`
}

// "\u3000" (ideographic space) is the one whitespace character that is two
// columns wide and allows a break after it
var widths = map[string]int{"a": 1, "b": 1, " ": 1, "-": 1, "\n": 0, "宽": 2, "e\u0301": 1, "（": 2, "c": 1, "\u3000": 2}

func isWS(g string) bool     { return g == " " || g == "\n" || g == "\u3000" }
func isLetter(g string) bool { return g == "a" || g == "b" || g == "c" || g == "e\u0301" }

func ctx(w, h int) vxfw.DrawContext {
	return vxfw.DrawContext{Max: vxfw.Size{Width: uint16(w), Height: uint16(h)}, Characters: vaxis.Characters}
}

type lineG struct {
	g     string
	style int // rich only: index of the source cluster (-1 plain)
}

// within runs f under a watchdog (a scanner that never returns is a hang).
func within(f func()) bool {
	done := make(chan struct{})
	go func() { f(); close(done) }()
	select {
	case <-done:
		return true
	case <-time.After(5 * time.Second):
		return false
	}
}

func clusters(s string) []string {
	var out []string
	for _, c := range vaxis.Characters(s) {
		out = append(out, c.Grapheme)
	}
	return out
}

func scanPlain(c Case) (lines [][]lineG, msg string) {
	s := strings.Join(c.Text, "")
	limit := len(c.Text) + 3
	ok := within(func() {
		sc := text.NewSoftwrapScanner(s, uint16(c.Width))
		for sc.Scan(ctx(c.Width, 100)) {
			var l []lineG
			for _, g := range clusters(sc.Text()) {
				l = append(l, lineG{g, -1})
			}
			lines = append(lines, l)
			if len(lines) > limit {
				msg = fmt.Sprintf("the plain scanner emitted more than %d lines for %d graphemes (it does not terminate)", limit, len(c.Text))
				return
			}
		}
	})
	if !ok {
		return nil, "the plain scanner's Scan is still running after 5 s"
	}
	return
}

func richCells(c Case) []vaxis.Cell {
	var cells []vaxis.Cell
	for i, g := range c.Text {
		cells = append(cells, vaxis.Cell{Character: vaxis.Character{Grapheme: g, Width: widths[g]}, Style: vaxis.Style{Foreground: vaxis.IndexColor(uint8(i + 1))}})
	}
	return cells
}

func scanRich(c Case) (lines [][]lineG, msg string) {
	limit := len(c.Text) + 3
	ok := within(func() {
		sc := richtext.NewSoftwrapScanner(richCells(c), uint16(c.Width))
		for sc.Scan() {
			var l []lineG
			for _, cell := range sc.Text() {
				idx := -2
				if ps := cell.Style.Foreground.Params(); len(ps) == 1 {
					idx = int(ps[0]) - 1
				}
				l = append(l, lineG{cell.Grapheme, idx})
			}
			lines = append(lines, l)
			if len(lines) > limit {
				msg = fmt.Sprintf("the rich scanner emitted more than %d lines for %d graphemes (it does not terminate)", limit, len(c.Text))
				return
			}
		}
	})
	if !ok {
		return nil, "the rich scanner's Scan is still running after 5 s"
	}
	return
}

func fmtLines(lines [][]lineG) string {
	var parts []string
	for _, l := range lines {
		var sb strings.Builder
		for _, g := range l {
			sb.WriteString(g.g)
		}
		parts = append(parts, fmt.Sprintf("%q", sb.String()))
	}
	return "[" + strings.Join(parts, " ") + "]"
}

func predicates(which string, c Case, lines [][]lineG) string {
	in := c.Text
	W := c.Width
	desc := func() string {
		return fmt.Sprintf("%s scanner, text %q width %d -> %s", which, strings.Join(in, ""), W, fmtLines(lines))
	}
	if W == 0 {
		if len(lines) != 0 {
			return desc() + ": lines emitted at width 0"
		}
		return ""
	}
	// conservation + line numbers of the input's non-whitespace graphemes
	var lineOf []int // per input index (non-ws only; -1 for ws)
	lineOf = make([]int, len(in))
	for i := range lineOf {
		lineOf[i] = -1
	}
	ii := 0
	next := func() int {
		for ii < len(in) && isWS(in[ii]) {
			ii++
		}
		return ii
	}
	for ln, l := range lines {
		for _, g := range l {
			if isWS(g.g) {
				continue
			}
			k := next()
			if k >= len(in) || in[k] != g.g {
				return desc() + fmt.Sprintf(": line %d has %q where the input's next non-whitespace grapheme is %q (lost, duplicated or reordered)", ln, g.g, safe(in, k))
			}
			if g.style != -1 && g.style != k {
				return desc() + fmt.Sprintf(": %q on line %d carries the style of input grapheme %d, it is grapheme %d", g.g, ln, g.style, k)
			}
			lineOf[k] = ln
			ii++
		}
	}
	if k := next(); k < len(in) {
		return desc() + fmt.Sprintf(": input grapheme %d %q (and what follows) was lost", k, in[k])
	}
	// width bound
	for ln, l := range lines {
		end := len(l)
		for end > 0 && isWS(l[end-1].g) {
			end--
		}
		w := 0
		for _, g := range l[:end] {
			w += widths[g.g]
		}
		if w > W && end > 1 {
			return desc() + fmt.Sprintf(": line %d is %d wide without trailing whitespace", ln, w)
		}
	}
	// letter runs that fit stay together
	for i := 0; i < len(in); {
		if !isLetter(in[i]) {
			i++
			continue
		}
		j := i
		w := 0
		for j < len(in) && isLetter(in[j]) {
			w += widths[in[j]]
			j++
		}
		// no break is allowed between an opening bracket and what follows, even
		// across spaces (UAX #14 LB14: OP SP* ×)
		glued := false
		for k := i - 1; k >= 0; k-- {
			if in[k] == " " || in[k] == "\u3000" {
				continue
			}
			glued = in[k] == "（"
			break
		}
		if glued && harness.Known("C16-A70") {
			// recorded finding: the run is part of an unbreakable segment
			// that is wider than the line; the scanner breaks such a
			// segment at any grapheme
			harness.R.Excluded("predicates", "letter run glued to an opening bracket (C16-A70)")
			i = j
			continue
		}
		if w <= W {
			for k := i + 1; k < j; k++ {
				if lineOf[k] != lineOf[i] {
					return desc() + fmt.Sprintf(": the run of letters %q (width %d) fits a line but is split between lines %d and %d", strings.Join(in[i:j], ""), w, lineOf[i], lineOf[k])
				}
			}
		}
		i = j
	}
	// hard breaks
	prev := -1
	lfs := 0
	for i, g := range in {
		switch {
		case g == "\n":
			lfs++
		case !isWS(g):
			if prev >= 0 && lfs > 0 && lineOf[i]-lineOf[prev] < lfs {
				return desc() + fmt.Sprintf(": %d line break(s) lie between %q and %q but they are on lines %d and %d", lfs, in[prev], g, lineOf[prev], lineOf[i])
			}
			prev = i
			lfs = 0
		}
	}
	return ""
}

func safe(in []string, k int) string {
	if k < len(in) {
		return in[k]
	}
	return "<end>"
}

// drawn rows of a surface as grapheme strings
func surfaceRows(s vxfw.Surface) []string {
	var rows []string
	w, h := int(s.Size.Width), int(s.Size.Height)
	for r := 0; r < h; r++ {
		var sb strings.Builder
		for col := 0; col < w; {
			cell := s.Buffer[r*w+col]
			if cell.Grapheme == "" || cell.Grapheme == "\n" {
				// (a line break kept at the end of a line is drawn as a blank)
				sb.WriteString("·")
				col++
				continue
			}
			sb.WriteString(cell.Grapheme)
			cw := cell.Width
			if cw < 1 {
				cw = 1
			}
			col += cw
		}
		rows = append(rows, sb.String())
	}
	return rows
}

func lineString(l []lineG, width int) string {
	var sb strings.Builder
	w := 0
	for _, g := range l {
		if g.g == "\n" {
			continue
		}
		if w >= width {
			break
		}
		sb.WriteString(g.g)
		w += widths[g.g]
	}
	return sb.String()
}

func drawCheck(c Case, plain [][]lineG, rich [][]lineG) string {
	if c.Width == 0 || len(plain) > 900 || len(rich) > 900 {
		return ""
	}
	var msg string
	ok := within(func() {
		t := text.New(strings.Join(c.Text, ""))
		s, err := t.Draw(ctx(c.Width, 1000))
		if err != nil {
			msg = "Text.Draw error: " + err.Error()
			return
		}
		rows := surfaceRows(s)
		// the same instance in a window that was shorter before: drawing is a
		// function of the text and the constraint, not of earlier frames
		for _, h := range []int{len(plain) - 1, 0} {
			if h < 0 {
				continue
			}
			t2 := text.New(strings.Join(c.Text, ""))
			if _, err := t2.Draw(ctx(c.Width, h)); err != nil {
				msg = "Text.Draw error: " + err.Error()
				return
			}
			s2, err := t2.Draw(ctx(c.Width, 1000))
			if err != nil {
				msg = "Text.Draw error: " + err.Error()
				return
			}
			if r2 := surfaceRows(s2); strings.Join(r2, "\n") != strings.Join(rows, "\n") {
				msg = fmt.Sprintf("Text.Draw(%q, width %d): an instance drawn before with height %d shows %q, a new one shows %q", strings.Join(c.Text, ""), c.Width, h, r2, rows)
				return
			}
		}
		if len(rows) != len(plain) {
			msg = fmt.Sprintf("Text.Draw(%q, width %d) has %d rows, the scanner emits %d lines %s", strings.Join(c.Text, ""), c.Width, len(rows), len(plain), fmtLines(plain))
			return
		}
		for r, row := range rows {
			want := lineString(plain[r], c.Width)
			if strings.TrimRight(row, "·") != want && strings.TrimRight(strings.TrimRight(row, "·"), " ") != strings.TrimRight(want, " ") {
				msg = fmt.Sprintf("Text.Draw(%q, width %d) row %d shows %q, the scanner's line is %q", strings.Join(c.Text, ""), c.Width, r, row, want)
				return
			}
		}
		var segs []vaxis.Segment
		for i, g := range c.Text {
			segs = append(segs, vaxis.Segment{Text: g, Style: vaxis.Style{Foreground: vaxis.IndexColor(uint8(i + 1))}})
		}
		rt := richtext.New(segs)
		s2, err := rt.Draw(ctx(c.Width, 1000))
		if err != nil {
			msg = "RichText.Draw error: " + err.Error()
			return
		}
		rows = surfaceRows(s2)
		for _, h := range []int{len(rich) - 1} {
			if h < 0 {
				continue
			}
			rt2 := richtext.New(segs)
			if _, err := rt2.Draw(ctx(c.Width, h)); err != nil {
				msg = "RichText.Draw error: " + err.Error()
				return
			}
			s3, err := rt2.Draw(ctx(c.Width, 1000))
			if err != nil {
				msg = "RichText.Draw error: " + err.Error()
				return
			}
			if r3 := surfaceRows(s3); strings.Join(r3, "\n") != strings.Join(rows, "\n") {
				msg = fmt.Sprintf("RichText.Draw(%q, width %d): an instance drawn before with height %d shows %q, a new one shows %q", strings.Join(c.Text, ""), c.Width, h, r3, rows)
				return
			}
		}
		if len(rows) != len(rich) {
			msg = fmt.Sprintf("RichText.Draw(%q, width %d) has %d rows, the scanner emits %d lines %s", strings.Join(c.Text, ""), c.Width, len(rows), len(rich), fmtLines(rich))
			return
		}
		for r, row := range rows {
			want := lineString(rich[r], c.Width)
			if strings.TrimRight(strings.TrimRight(row, "·"), " ") != strings.TrimRight(want, " ") {
				msg = fmt.Sprintf("RichText.Draw(%q, width %d) row %d shows %q, the scanner's line is %q", strings.Join(c.Text, ""), c.Width, r, row, want)
				return
			}
		}
	})
	if !ok {
		return "Text.Draw / RichText.Draw still running after 5 s"
	}
	return msg
}

func run(c Case) string {
	plain, msg := scanPlain(c)
	if msg != "" {
		return fmt.Sprintf("text %q width %d: %s", strings.Join(c.Text, ""), c.Width, msg)
	}
	if msg := predicates("plain", c, plain); msg != "" {
		return msg
	}
	rich, msg := scanRich(c)
	if msg != "" {
		return fmt.Sprintf("text %q width %d: %s", strings.Join(c.Text, ""), c.Width, msg)
	}
	if msg := predicates("rich", c, rich); msg != "" {
		return msg
	}
	// hard-wrap scanner: lines are the LF-separated pieces
	hs := richtext.NewHardwrapScanner(richCells(c))
	var hl []string
	for n := 0; hs.Scan(); n++ {
		var sb strings.Builder
		for _, cell := range hs.Line() {
			sb.WriteString(cell.Grapheme)
		}
		hl = append(hl, sb.String())
		if n > len(c.Text)+3 {
			return fmt.Sprintf("text %q: the hard-wrap scanner does not terminate", strings.Join(c.Text, ""))
		}
	}
	want := strings.Split(strings.TrimSuffix(strings.Join(c.Text, ""), "\n"), "\n")
	if len(c.Text) == 0 {
		want = nil
	}
	if strings.Join(hl, "\x00") != strings.Join(want, "\x00") {
		return fmt.Sprintf("text %q: the hard-wrap scanner emits %q, the lines are %q", strings.Join(c.Text, ""), hl, want)
	}
	return drawCheck(c, plain, rich)
}

func needsTwoLines(c Case) bool {
	w := 0
	for _, g := range c.Text {
		if g == "\n" {
			return true
		}
		w += widths[g]
	}
	return c.Width > 0 && w > c.Width
}

func TestExhaustive(t *testing.T) {
	if harness.ReplayPath() != "" {
		t.Skip()
	}
	const sub = "exhaustive"
	alpha := []string{"a", "b", " ", "-", "\n", "宽", "e\u0301", "\u3000"}
	maxLen := 6
	if harness.Thorough() {
		// every string up to length 7 over all nine symbols; the strings of
		// length 8 are enumerated below over the eight symbols without the
		// wide space (9^8 x 7 widths does not fit the budget)
		alpha = append(alpha, "（")
		maxLen = 7
	}
	idx := 0
	fails := 0
	minLen := 0
	var rec func(prefix []string)
	rec = func(prefix []string) {
		if fails > 3 {
			return
		}
		idx++
		if harness.Mine(idx) && len(prefix) >= minLen {
			for w := 0; w <= 6; w++ {
				c := Case{Text: append([]string{}, prefix...), Width: w}
				harness.R.Eval(sub)
				if needsTwoLines(c) {
					harness.R.Nontrivial(sub, c)
				}
				if idx%30000 == 1 && w == 3 {
					harness.R.Sample(sub, c)
				}
				if msg := run(c); msg != "" {
					fails++
					harness.Fail(t, sub, msg, c)
					break
				}
			}
		}
		if len(prefix) == maxLen {
			return
		}
		for _, a := range alpha {
			rec(append(prefix, a))
		}
	}
	rec(nil)
	if harness.Thorough() {
		alpha = []string{"a", "b", " ", "-", "\n", "宽", "e\u0301", "（"}
		maxLen, minLen = 8, 8
		rec(nil)
	}
	if fails == 0 {
		harness.R.Exhaustive(sub)
	}
}

func TestRandomTexts(t *testing.T) {
	const sub = "random"
	alpha := []string{"a", "a", "b", "c", " ", " ", "-", "\n", "宽", "e\u0301", "（", "\u3000"}
	n := harness.PerShard(harness.Scale(40_000, 3_000_000))
	harness.Check(t, sub, n, func(rt *rapid.T) Case {
		k := rapid.IntRange(0, 200).Draw(rt, "len")
		if rapid.Bool().Draw(rt, "short") {
			k = rapid.IntRange(0, 20).Draw(rt, "len-s")
		}
		c := Case{Width: rapid.IntRange(0, 40).Draw(rt, "width")}
		if rapid.Bool().Draw(rt, "narrow") {
			c.Width = rapid.IntRange(0, 6).Draw(rt, "width-n")
		}
		for i := 0; i < k; i++ {
			c.Text = append(c.Text, rapid.SampledFrom(alpha).Draw(rt, "g"))
		}
		if needsTwoLines(c) {
			harness.R.Nontrivial(sub, c)
		}
		harness.R.Sample(sub, c)
		return c
	}, run)
}

var _ = math.MaxUint16

func TestReplay(t *testing.T) {
	r := harness.Decode(run)
	harness.ReplayAll(t, map[string]harness.Runner{"exhaustive": r, "random": r})
}
