//go:build verif

package c18

import (
	"fmt"
	"strings"
	"sync"
	"testing"
	"time"

	vaxis "git.sr.ht/~rockorager/vaxis"
	"pgregory.net/rapid"

	"verif/internal/gen"
	"verif/internal/harness"
	"verif/internal/model"
	"verif/internal/refterm"
	"verif/internal/termdrive"
	"verif/internal/vtref"
	"verif/internal/vxdrive"
)

func TestMain(m *testing.M) { harness.Main(m, "C18") }

// Sty is the five components the statement lists.
type Sty struct {
	Fg, Bg, Ul uint32
	Uls, Attr  uint8
}

func (s Sty) String() string {
	return fmt.Sprintf("{fg=%x bg=%x ul=%x uls=%d attr=%08b}", s.Fg, s.Bg, s.Ul, s.Uls, s.Attr)
}

func ofVaxis(s vaxis.Style) Sty {
	return Sty{uint32(s.Foreground), uint32(s.Background), uint32(s.UnderlineColor), uint8(s.UnderlineStyle), uint8(s.Attribute)}
}

func refColor(c refterm.Color) uint32 {
	switch c.Kind {
	case refterm.ColIndex:
		return gen.Index(int(c.V))
	case refterm.ColRGB:
		return gen.RGB(int(c.V>>16), int(c.V>>8), int(c.V))
	}
	return 0
}

func ofRef(s refterm.Style) Sty {
	return Sty{refColor(s.Fg), refColor(s.Bg), refColor(s.Ul), s.UlStyle, s.Attrs << 1}
}

type Cells struct {
	Cells []model.CellSpec `json:"cells"`
}

func vxCells(c Cells) []vaxis.Cell {
	out := make([]vaxis.Cell, len(c.Cells))
	for i, s := range c.Cells {
		out[i] = s.Vaxis()
		if out[i].Width == 0 {
			out[i].Width = 1
		}
	}
	return out
}

var (
	sessOnce sync.Once
	sess     *vxdrive.Session
)

// a Vaxis for NewStyledString (it only needs its width capabilities)
func theVaxis() *vaxis.Vaxis {
	sessOnce.Do(func() {
		s, err := vxdrive.Start(40, 2, refterm.Caps{Unicode2027: true, RGB: true, Smulx: true}, vxdrive.Opts{DisableMouse: true})
		if err == nil {
			s.Sync(10 * time.Second)
			s.Drain()
			sess = s
		}
	})
	if sess == nil {
		return nil
	}
	return sess.Vx
}

type cellOut struct {
	G string
	S Sty
}

func fmtCells(cs []cellOut) string {
	var sb strings.Builder
	for _, c := range cs {
		fmt.Fprintf(&sb, "%q%v ", c.G, c.S)
	}
	return sb.String()
}

// consumers -----------------------------------------------------------------

func consumeParse(s string) (out []cellOut, p string) {
	defer func() {
		if r := recover(); r != nil {
			p = fmt.Sprintf("ParseStyledString panicked: %v", r)
		}
	}()
	for try := 0; try < 10; try++ {
		out = out[:0]
		spurious := false
		for _, c := range vaxis.ParseStyledString(s) {
			out = append(out, cellOut{c.Grapheme, ofVaxis(c.Style)})
		}
		// the parser's wall-clock Escape timer can fire on a loaded machine:
		// its symptom is "[" printed as text
		for _, c := range out {
			if c.G == "[" && !strings.Contains(stripSGR(s), "[") {
				spurious = true
			}
		}
		if !spurious {
			break
		}
	}
	return
}

func stripSGR(s string) string {
	var sb strings.Builder
	for _, it := range vtref.Parse([]byte(s)).Items {
		if it.Kind == vtref.Text {
			for _, r := range it.Run {
				sb.WriteRune(r.R)
			}
		}
	}
	return sb.String()
}

func consumeNew(s string) (out []cellOut, p string) {
	vx := theVaxis()
	if vx == nil {
		return nil, ""
	}
	defer func() {
		if r := recover(); r != nil {
			p = fmt.Sprintf("NewStyledString panicked: %v", r)
		}
	}()
	for _, c := range vx.NewStyledString(s, vaxis.Style{}).Cells {
		out = append(out, cellOut{c.Grapheme, ofVaxis(c.Style)})
	}
	return
}

func consumeEmu(s string, cols int) (out []cellOut, p string) {
	e, err := termdrive.New(cols, 1)
	if err != nil {
		return nil, ""
	}
	defer e.Close()
	if _, pm := e.Feed([]byte("\x1b[H" + s)); pm != "" {
		return nil, "embedded terminal: " + pm
	}
	st := e.M.VerifSnapshot()
	for c := 0; c < st.Cols; {
		cell := st.Active[0][c]
		if cell.Grapheme == "" {
			break
		}
		out = append(out, cellOut{cell.Grapheme, ofVaxis(cell.Style)})
		w := cell.Width
		if w < 1 {
			w = 1
		}
		c += w
	}
	return
}

func consumeRef(s string, cols int) (out []cellOut) {
	t := refterm.New(cols, 1, refterm.Caps{})
	t.Method = 2
	_, _ = t.Write([]byte(s))
	row := t.Grid()[0]
	for c := 0; c < cols; c++ {
		if row[c].W == 0 {
			continue
		}
		if row[c].G == "" {
			break
		}
		out = append(out, cellOut{row[c].G, ofRef(row[c].Style)})
	}
	return
}

// producers -----------------------------------------------------------------

func sgrAndTextOnly(b []byte) string {
	var sb strings.Builder
	start := 0
	for _, it := range vtref.Parse(b).Items {
		seg := b[start:it.End]
		start = it.End
		switch {
		case it.Kind == vtref.Text:
			for _, r := range it.Run {
				sb.WriteRune(r.R)
			}
		case it.Kind == vtref.CSI && it.Code == 'm' && len(it.Inter) == 0:
			if i := strings.LastIndex(string(seg), "\x1b["); i >= 0 {
				sb.Write(seg[i:])
			}
		}
	}
	return sb.String()
}

func renderBytes(c Cells, caps refterm.Caps) (string, []cellOut) {
	cells := vxCells(c)
	cols := 2
	for _, cell := range cells {
		cols += cell.Width
	}
	s, err := vxdrive.Start(cols, 1, caps, vxdrive.Opts{DisableMouse: true})
	if err != nil {
		return "", nil
	}
	defer s.Close(5 * time.Second)
	s.Sync(10 * time.Second)
	s.Drain()
	s.TTY.Capture = true
	s.TTY.TakeOut()
	col := 0
	for _, cell := range cells {
		s.Vx.Window().SetCell(col, 0, cell)
		col += cell.Width
	}
	// a probe after the cells, in the default style
	s.Vx.Window().SetCell(col, 0, vaxis.Cell{Character: vaxis.Character{Grapheme: "Z", Width: 1}})
	s.Vx.Render()
	out := s.TTY.TakeOut()
	// what the terminal shows (for the capability-mapped expectation)
	var shown []cellOut
	s.Term.Lock()
	row := s.Term.Grid()[0]
	for i := 0; i < len(row); i++ {
		if row[i].W == 0 {
			continue
		}
		if row[i].G == "" {
			break
		}
		shown = append(shown, cellOut{row[i].G, ofRef(row[i].Style)})
	}
	s.Term.Unlock()
	return sgrAndTextOnly(out), shown
}

// the check -------------------------------------------------------------------

func sameCells(a, b []cellOut) (int, bool) {
	for i := 0; i < len(a) || i < len(b); i++ {
		if i >= len(a) || i >= len(b) || a[i] != b[i] {
			return i, false
		}
	}
	return 0, true
}

func agree(what, s string, cols int, want []cellOut) string {
	full := s + "Z"
	ref := consumeRef(full, cols)
	type cons struct {
		name string
		out  []cellOut
	}
	var all []cons
	p, pm := consumeParse(full)
	if pm != "" {
		return fmt.Sprintf("%s %q: %s", what, s, pm)
	}
	all = append(all, cons{"ParseStyledString", p})
	// NewStyledString reads SGR only (hyperlinks are outside its format)
	n, pm := consumeNew(sgrAndTextOnly([]byte(full)))
	if pm != "" {
		return fmt.Sprintf("%s %q: %s", what, s, pm)
	}
	if n != nil {
		all = append(all, cons{"NewStyledString", n})
	}
	e, pm := consumeEmu(full, cols)
	if pm != "" {
		return fmt.Sprintf("%s %q: %s", what, s, pm)
	}
	if e != nil {
		all = append(all, cons{"embedded terminal", e})
	}
	for _, c := range all {
		if i, ok := sameCells(c.out, ref); !ok {
			return fmt.Sprintf("%s %q: %s and a VT/xterm reading of the same string differ at cell %d: %s reads %s, reference reads %s", what, s, c.name, i, c.name, fmtCells(c.out), fmtCells(ref))
		}
	}
	if want != nil {
		w := append(append([]cellOut{}, want...), cellOut{"Z", Sty{}})
		if i, ok := sameCells(ref, w); !ok {
			if i == len(want) {
				return fmt.Sprintf("%s %q does not leave the styles reset at its end: a following character is read with %v", what, s, ref[len(ref)-1].S)
			}
			return fmt.Sprintf("%s %q does not decode to the cells it was made from (cell %d): decoded %s, encoded from %s", what, s, i, fmtCells(ref), fmtCells(want))
		}
	}
	return ""
}

var check = harness.Confirm(checkOnce, 2)

func checkOnce(c Cells) string {
	cells := vxCells(c)
	cols := 2
	var want []cellOut
	hasLink := false
	for _, cell := range cells {
		cols += cell.Width
		want = append(want, cellOut{cell.Grapheme, ofVaxis(cell.Style)})
		if cell.Hyperlink != "" {
			hasLink = true
		}
	}
	// EncodeCells
	enc := vaxis.EncodeCells(cells)
	if msg := agree("EncodeCells output", enc, cols, want); msg != "" {
		return msg
	}
	if !hasLink {
		ss := vaxis.StyledString{Cells: cells}
		if msg := agree("StyledString.Encode output", ss.Encode(), cols, want); msg != "" {
			return msg
		}
	}
	return ""
}

func checkRender(c Cells) string {
	for _, caps := range []refterm.Caps{{RGB: true, Smulx: true, Unicode2027: true}, {Unicode2027: true}} {
		s, shown := renderBytes(c, caps)
		if s == "" {
			continue
		}
		if len(shown) > 0 {
			shown = shown[:len(shown)-1] // the probe Z is appended again by agree
		}
		what := "renderer output (full capabilities)"
		if !caps.RGB {
			what = "renderer output (no RGB, no styled underlines)"
		}
		// agree appends the probe; the renderer already drew one: strip it and its reset
		s = strings.TrimSuffix(strings.TrimSuffix(s, "\x1b[m"), "Z")
		if msg := agree(what, s+"\x1b[m", len(c.Cells)*2+4, nil); msg != "" {
			return msg
		}
		_ = shown
	}
	return ""
}

// ---------------------------------------------------------------------------
// generators / enumerators

var classColors = map[string][]uint32{
	"default":   {0},
	"idx0-7":    {gen.Index(1), gen.Index(7)},
	"idx8-15":   {gen.Index(8), gen.Index(15)},
	"idx16-255": {gen.Index(16), gen.Index(200), gen.Index(255)},
	"rgb":       {gen.RGB(1, 2, 3), gen.RGB(255, 0, 128), gen.RGB(0, 0, 0)},
}
var classNames = []string{"default", "idx0-7", "idx8-15", "idx16-255", "rgb"}

func colorOf(class int, variant int) uint32 {
	cs := classColors[classNames[class%5]]
	return cs[variant%len(cs)]
}

func TestAttributePairsExhaustive(t *testing.T) {
	if harness.ReplayPath() != "" {
		t.Skip()
	}
	const sub = "attr-pairs"
	fails := 0
	idx := 0
	for a := 0; a < 128; a++ {
		for b := 0; b < 128; b++ {
			idx++
			if !harness.Mine(idx) || fails > 3 {
				continue
			}
			// rotate colour classes and underline styles so that every
			// class pair occurs with many mask pairs
			k := idx
			s1 := model.StyleSpec{Attr: uint8(a) << 1, Fg: colorOf(k, k/5), Bg: colorOf(k/5, k), Ul: colorOf(k/25, k/3), UlStyle: uint8(k % 6)}
			s2 := model.StyleSpec{Attr: uint8(b) << 1, Fg: colorOf(k/125, k/7), Bg: colorOf(k/625, k/2), Ul: colorOf(k/3125, k), UlStyle: uint8((k / 6) % 6)}
			for _, c := range []Cells{
				{Cells: []model.CellSpec{{G: "a", Style: s1}, {G: "b", Style: s2}}},
				{Cells: []model.CellSpec{{G: "a", Style: s1}, {G: "宽", W: 2, Style: s2}, {G: "c", Style: s1}}},
			} {
				harness.R.Eval(sub)
				if a != 0 && b != 0 {
					harness.R.Nontrivial(sub, c)
				}
				if idx%4000 == 1 {
					harness.R.Sample(sub, c)
				}
				if msg := check(c); msg != "" {
					fails++
					harness.Fail(t, sub, msg, c)
					break
				}
			}
		}
	}
	if fails == 0 {
		harness.R.Exhaustive(sub)
	}
}

func TestColorClassTriplesExhaustive(t *testing.T) {
	if harness.ReplayPath() != "" {
		t.Skip()
	}
	const sub = "colour-classes"
	fails := 0
	idx := 0
	// (fg,bg,ul) classes of cell 1 x (fg,bg,ul) classes of cell 2 = 5^6
	for n := 0; n < 15625; n++ {
		idx++
		if !harness.Mine(idx) || fails > 3 {
			continue
		}
		d := []int{n % 5, n / 5 % 5, n / 25 % 5, n / 125 % 5, n / 625 % 5, n / 3125 % 5}
		s1 := model.StyleSpec{Fg: colorOf(d[0], n), Bg: colorOf(d[1], n/2), Ul: colorOf(d[2], n/3), UlStyle: uint8(n%5 + 1), Attr: uint8(n%128) << 1}
		s2 := model.StyleSpec{Fg: colorOf(d[3], n/5), Bg: colorOf(d[4], n/7), Ul: colorOf(d[5], n/11), UlStyle: uint8(n / 5 % 6), Attr: uint8(n/3%128) << 1}
		c := Cells{Cells: []model.CellSpec{{G: "a", Style: s1}, {G: "b", Style: s2}, {G: "c", Style: s1}}}
		harness.R.Eval(sub)
		harness.R.Nontrivial(sub, c)
		if idx%3000 == 1 {
			harness.R.Sample(sub, c)
		}
		if msg := check(c); msg != "" {
			fails++
			harness.Fail(t, sub, msg, c)
		}
	}
	if fails == 0 {
		harness.R.Exhaustive(sub)
	}
}

func genCells(rt *rapid.T, links bool) Cells {
	n := rapid.IntRange(1, 20).Draw(rt, "ncells")
	styles := gen.Styles(rt, rapid.IntRange(1, 5).Draw(rt, "nstyles"))
	var c Cells
	for i := 0; i < n; i++ {
		st := rapid.SampledFrom(styles).Draw(rt, "st")
		if !links {
			st.Link, st.LinkP = "", ""
		}
		g := rapid.SampledFrom([]string{"a", "b", "Z", "é", "宽", "😀", "e\u0301", "👩‍🚀", "🇺🇸", "~"}).Draw(rt, "g")
		w := 1
		switch g {
		case "宽", "😀", "👩‍🚀", "🇺🇸":
			w = 2
		}
		c.Cells = append(c.Cells, model.CellSpec{G: g, W: w, Style: st})
	}
	return c
}

func nontrivialCells(c Cells) bool {
	for i := 1; i < len(c.Cells); i++ {
		a, b := c.Cells[i-1].Style, c.Cells[i].Style
		if a != b && a != (model.StyleSpec{}) && b != (model.StyleSpec{}) {
			return true
		}
	}
	return false
}

func TestRandomSequences(t *testing.T) {
	const sub = "sequences"
	n := harness.PerShard(harness.Scale(40_000, 3_000_000))
	harness.Check(t, sub, n, func(rt *rapid.T) Cells {
		c := genCells(rt, rapid.Bool().Draw(rt, "links"))
		if nontrivialCells(c) {
			harness.R.Nontrivial(sub, c)
		}
		harness.R.Sample(sub, c)
		return c
	}, check)
}

func TestRendererAsProducer(t *testing.T) {
	const sub = "renderer"
	n := harness.PerShard(harness.Scale(4_000, 300_000))
	harness.Check(t, sub, n, func(rt *rapid.T) Cells {
		c := genCells(rt, false)
		if nontrivialCells(c) {
			harness.R.Nontrivial(sub, c)
		}
		harness.R.Sample(sub, c)
		return c
	}, harness.Confirm(checkRender, 1))
}

// arbitrary parameter lists: no consumer may panic, and they must agree
type Params struct {
	S string `json:"s"`
}

var paramAtoms = []string{"", "0", "1", "2", "3", "4", "5", "7", "8", "9", "21", "22", "23", "24", "25", "27", "28", "29", "30", "37", "38", "39", "40", "47", "48", "49", "58", "59", "90", "97", "100", "107",
	"4:0", "4:3", "4:5", "4:", "4:9", "38:5", "38:5:1", "38:2", "38:2:1", "38:2:1:2", "38:2:1:2:3", "38:2::1:2:3", "38:2:0:1:2:3:4", "48:5:255", "48:2:9:9:9", "58:5", "58:5:7", "58:2:1:2:3", "58:2::1:2:3",
	"38;5", "38;5;1", "38;2", "38;2;1", "38;2;1;2", "38;2;1;2;3", "48;5;2", "48;2;1;2;3", "58;5;3", "58;2;1;2;3", "58;2;1", "38;9", "48;0", "1000000", "256", "65536", "5;1", "2;1"}

func checkParams(p Params) string {
	s := "\x1b[" + p.S + "mX\x1b[mY"
	if _, pm := consumeParse(s); pm != "" {
		return fmt.Sprintf("SGR parameters %q: %s", p.S, pm)
	}
	if _, pm := consumeNew(s); pm != "" {
		return fmt.Sprintf("SGR parameters %q: %s", p.S, pm)
	}
	if _, pm := consumeEmu(s, 8); pm != "" {
		return fmt.Sprintf("SGR parameters %q: %s", p.S, pm)
	}
	return ""
}

func TestArbitraryParameterLists(t *testing.T) {
	const sub = "parameter-lists"
	n := harness.PerShard(harness.Scale(60_000, 5_000_000))
	harness.Check(t, sub, n, func(rt *rapid.T) Params {
		k := rapid.IntRange(1, 7).Draw(rt, "n")
		var ps []string
		for i := 0; i < k; i++ {
			if rapid.IntRange(0, 5).Draw(rt, "rand") == 0 {
				ps = append(ps, fmt.Sprint(rapid.IntRange(0, 1000000).Draw(rt, "v")))
			} else {
				ps = append(ps, rapid.SampledFrom(paramAtoms).Draw(rt, "atom"))
			}
		}
		p := Params{S: strings.Join(ps, ";")}
		if k >= 2 {
			harness.R.Nontrivial(sub, p)
		}
		harness.R.Sample(sub, p)
		return p
	}, checkParams)
}

func TestReplay(t *testing.T) {
	harness.ReplayAll(t, map[string]harness.Runner{
		"attr-pairs": harness.Decode(check), "colour-classes": harness.Decode(check), "sequences": harness.Decode(check),
		"renderer": harness.Decode(harness.Confirm(checkRender, 1)), "parameter-lists": harness.Decode(checkParams),
	})
}
