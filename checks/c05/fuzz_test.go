package c05

import (
	"testing"
	"time"

	"verif/internal/harness"
)

// FuzzTermBytes: arbitrary child output, split in two around a resize, fed to
// the PTY-less emulator; the oracle inside the target is the same as in the
// histories sub-check (no panic, no stall, every structural invariant after
// every step). Thorough tier only.
func FuzzTermBytes(f *testing.F) {
	for _, s := range []string{
		"hello\r\nworld", "\x1b[2J\x1b[H\x1b[1;31mred\x1b[m", "\x1b[?1049h\x1b[10;10H宽\x1b[?1049l", "\x1b[5;3r\x1b[99B\x1bM\x1bD\x1bE",
		"\x1b[65535;65535H\x1b[0;0H\x1b[2147483648C", "\x1b[3g\x1b[0g\x1bH\t\t\x1b[2I\x1b[9Z", "\x1b[4h\x1b[10@\x1b[10P\x1b[10X\x1b[4l", "\x1b[1;1H\x1b[1J\x1b[0K\x1b[1K\x1b[2K",
		"\x1b]0;t\x07\x1b]8;id=1;u\x1b\\x\x1b]8;;\x1b\\", "\x1b]52;c;aGk=\x07\x1b]11;?\x07", "\x1bPq#0;2;0;0;0#0~~\x1b\\", "\x1b_Gi=1;\x1b\\", "\x1b[38;2;1;2m\x1b[38;5m\x1b[58:2::1:2:3m\x1b[4:3m",
		"\x1b7\x1b[9;9H\x1b8\x1b[s\x1b[u", "\x1b[6n\x1b[c\x1b[>c\x1b[?1$p", "a\x08\x08\x08\x7f\x00\x0e\x0f", "\x1b(0lqk\x1b(B", "\x1b#8", "👩‍🚀🇺🇸é́", "\x1b[?6h\x1b[?7l\x1b[3;5r\x1b[H",
		"\x1b[L\x1b[99L\x1b[M\x1b[99M\x1b[S\x1b[99S\x1b[T\x1b[99T", "\x1b[b\x1b[999b", "\x1bc",
	} {
		f.Add([]byte(s), uint8(10), uint8(4), uint8(3), uint8(2), uint8(len(s)/2))
	}
	f.Fuzz(func(t *testing.T, data []byte, cols, rows, cols2, rows2, cut uint8) {
		if len(data) > 200 {
			data = data[:200]
		}
		k := int(cut)
		if k > len(data) {
			k = len(data)
		}
		c := Case{Cols: 1 + int(cols)%40, Rows: 1 + int(rows)%16, Focus: cols2&1 == 1}
		c.Steps = []Step{
			{K: "feed", Bytes: append([]byte{}, data[:k]...)},
			{K: "resize", W: 1 + int(cols2)%40, H: 1 + int(rows2)%16},
			{K: "feed", Bytes: append([]byte{}, data[k:]...)},
		}
		res := make(chan string, 1)
		go func() { res <- runInner(c) }()
		select {
		case msg := <-res:
			if msg != "" {
				// the escape timer of the library's parser is used to split the
				// bytes into sequences: confirm before reporting
				if again := runInner(c); again != "" {
					harness.FuzzFail(t, "fuzz", again, c)
				}
			}
		case <-time.After(20 * time.Second):
			harness.FuzzFail(t, "fuzz", "processing does not terminate within 20 s", c)
		}
	})
}
