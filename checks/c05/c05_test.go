//go:build verif

package c05

import (
	"fmt"
	"runtime"
	"strings"
	"testing"
	"time"

	vaxis "git.sr.ht/~rockorager/vaxis"
	"pgregory.net/rapid"

	"verif/internal/harness"
	"verif/internal/pgen"
	"verif/internal/refterm"
	"verif/internal/termdrive"
	"verif/internal/tgen"
	"verif/internal/vxdrive"
	"verif/internal/widthtab"
)

func TestMain(m *testing.M) { harness.Main(m, "C05") }

type Step struct {
	K     string `json:"k"` // feed resize draw
	Bytes []byte `json:"bytes,omitempty"`
	W     int    `json:"w,omitempty"`
	H     int    `json:"h,omitempty"`
	Col   int    `json:"col,omitempty"`
	Row   int    `json:"row,omitempty"`
}

type Case struct {
	Cols  int    `json:"cols"`
	Rows  int    `json:"rows"`
	Focus bool   `json:"focus"`
	Steps []Step `json:"steps"`
	// Host capabilities that matter to the emulator: OSC 11 support
	HostOSC11 bool `json:"host_osc11"`
}

const hostCols, hostRows = 24, 14

func invariants(t *termdrive.T) string {
	s := t.M.VerifSnapshot()
	if s.Rows < 1 || s.Cols < 1 {
		return fmt.Sprintf("terminal has size %dx%d", s.Cols, s.Rows)
	}
	if s.CursorRow < 0 || s.CursorRow >= s.Rows || s.CursorCol < 0 || s.CursorCol >= s.Cols {
		return fmt.Sprintf("cursor at row %d col %d lies outside the %dx%d screen", s.CursorRow, s.CursorCol, s.Cols, s.Rows)
	}
	if !(0 <= s.MarginTop && s.MarginTop <= s.MarginBottom && s.MarginBottom < s.Rows) {
		return fmt.Sprintf("scroll margins top %d bottom %d are not ordered within %d rows", s.MarginTop, s.MarginBottom, s.Rows)
	}
	if !(0 <= s.MarginLeft && s.MarginLeft <= s.MarginRight && s.MarginRight < s.Cols) {
		return fmt.Sprintf("margins left %d right %d are not ordered within %d columns", s.MarginLeft, s.MarginRight, s.Cols)
	}
	if len(s.PrimaryRowLens) != s.Rows || len(s.AltRowLens) != s.Rows {
		return fmt.Sprintf("screens have %d / %d rows, terminal has %d", len(s.PrimaryRowLens), len(s.AltRowLens), s.Rows)
	}
	for i := 0; i < s.Rows; i++ {
		if s.PrimaryRowLens[i] != s.Cols || s.AltRowLens[i] != s.Cols || len(s.Active[i]) != s.Cols {
			return fmt.Sprintf("row %d has %d (primary) / %d (alternate) cells, terminal is %d wide", i, s.PrimaryRowLens[i], s.AltRowLens[i], s.Cols)
		}
	}
	if len(s.TabStops) > 4096 {
		return fmt.Sprintf("%d tab stops recorded on a %d-column terminal (unbounded growth)", len(s.TabStops), s.Cols)
	}
	return ""
}

func stacks() string {
	buf := make([]byte, 1<<20)
	return string(buf[:runtime.Stack(buf, true)])
}

var dumped bool

func runOnce(c Case) string {
	harness.JournalBegin("histories", c)
	defer harness.JournalEnd()
	res := make(chan string, 1)
	go func() { res <- runInner(c) }()
	select {
	case m := <-res:
		return m
	case <-time.After(15 * time.Second):
		d := stacks()
		for _, g := range strings.Split(d, "\n\n") {
			if strings.Contains(g, "term.(*Model).postEvent") {
				return "processing stalled: a feed is parked in the event hand-off (postEvent) and nobody else can drain it"
			}
			if strings.Contains(g, "term.(*Model).osc") && strings.Contains(g, "QueryBackground") {
				return "processing stalled: the emulator waits for the host terminal's background colour while holding its lock"
			}
		}
		// still computing inside the emulator, two samples apart, on an
		// input of a few dozen bytes: it does not terminate in any useful sense
		time.Sleep(300 * time.Millisecond)
		d2 := stacks()
		busy := func(dump string) string {
			for _, g := range strings.Split(dump, "\n\n") {
				if strings.Contains(g, "term.(*Model).update") && (strings.HasPrefix(g, "goroutine") && (strings.Contains(g, "[runnable]") || strings.Contains(g, "[running]"))) {
					for _, l := range strings.Split(g, "\n") {
						if strings.HasPrefix(l, "git.sr.ht/~rockorager/vaxis/widgets/term.(*Model).") && !strings.Contains(l, "update") && !strings.Contains(l, "handle") {
							return strings.SplitN(strings.TrimPrefix(l, "git.sr.ht/~rockorager/vaxis/widgets/term."), "(0x", 2)[0]
						}
					}
					return "update"
				}
			}
			return ""
		}
		if f1, f2 := busy(d), busy(d2); f1 != "" && f2 != "" {
			return fmt.Sprintf("processing does not terminate: after 15 s the emulator is still running inside %s (lock held)", f2)
		}
		harness.R.Label("run", "timeout-inconclusive")
		if !dumped {
			dumped = true
			fmt.Println("TIMEOUT-DUMP\n" + d)
		}
		return ""
	}
}

var run = harness.Confirm(runOnce, 1)

func runInner(c Case) (msg string) {
	t, err := termdrive.New(c.Cols, c.Rows)
	if err != nil {
		return ""
	}
	defer t.Close()
	if c.Focus {
		t.M.Focus()
	}
	var host *vxdrive.Session
	defer func() {
		if host != nil {
			host.Close(5 * time.Second)
		}
	}()
	if m := invariants(t); m != "" {
		return "initial state: " + m
	}
	for i, st := range c.Steps {
		switch st.K {
		case "feed":
			_, p := t.Feed(st.Bytes)
			if p != "" {
				return fmt.Sprintf("step %d feed %q: %s", i, st.Bytes, p)
			}
		case "resize":
			p := ""
			func() {
				defer func() {
					if r := recover(); r != nil {
						p = fmt.Sprint(r)
					}
				}()
				t.M.Resize(st.W, st.H)
			}()
			if p != "" {
				return fmt.Sprintf("step %d resize to %dx%d: panic: %s", i, st.W, st.H, p)
			}
		case "draw":
			if host == nil {
				// the host measures like the emulator does (grapheme clusters): the
				// emulator's cells carry the parser's cluster widths
				caps := refterm.Caps{OSC11: c.HostOSC11, RGB: true, Smulx: true, Unicode2027: true}
				host, err = vxdrive.Start(hostCols, hostRows, caps, vxdrive.Opts{DisableMouse: true})
				if err != nil {
					return ""
				}
				host.Sync(10 * time.Second)
				host.Drain()
			}
			if m := drawCheck(t, host, st); m != "" {
				return fmt.Sprintf("step %d draw into window col %d row %d %dx%d: %s", i, st.Col, st.Row, st.W, st.H, m)
			}
		}
		if m := invariants(t); m != "" {
			return fmt.Sprintf("after step %d (%s %q%s): %s", i, st.K, st.Bytes, sizeStr(st), m)
		}
	}
	return ""
}

func sizeStr(st Step) string {
	if st.K == "feed" {
		return ""
	}
	return fmt.Sprintf(" %dx%d", st.W, st.H)
}

var sentinelCell = vaxis.Cell{Character: vaxis.Character{Grapheme: "S", Width: 1}, Style: vaxis.Style{Foreground: vaxis.IndexColor(5), Background: vaxis.IndexColor(6), Attribute: vaxis.AttrItalic}}

func drawCheck(t *termdrive.T, host *vxdrive.Session, st Step) (msg string) {
	vx := host.Vx
	vx.HideCursor()
	vx.Window().Fill(sentinelCell)
	vx.Refresh()
	win := vx.Window().New(st.Col, st.Row, st.W, st.H)
	func() {
		defer func() {
			if r := recover(); r != nil {
				msg = fmt.Sprintf("panic: %v", r)
			}
		}()
		t.M.Draw(win)
	}()
	if msg != "" {
		return msg
	}
	vx.Render()
	// the host-side oracle knows the display width of ASCII and of the hand
	// table only; raw fuzzed bytes can put any scalar on the grid
	for _, row := range t.M.VerifSnapshot().Active {
		for _, c := range row {
			if _, ok := widthtab.Lookup(c.Grapheme); !ok && c.Grapheme != "" && !(len(c.Grapheme) == 1 && c.Grapheme[0] >= 0x20 && c.Grapheme[0] < 0x7f) {
				harness.R.Label("run", "draw-with-graphemes-outside-the-width-table(containment not compared)")
				return ""
			}
		}
	}
	term := host.Term
	term.Lock()
	defer term.Unlock()
	ww, wh := win.Size()
	inside := func(r, c int) bool { return c >= st.Col && c < st.Col+ww && r >= st.Row && r < st.Row+wh }
	for r := 0; r < term.Rows; r++ {
		for c := 0; c < term.Cols; c++ {
			cell := term.Cell(r, c)
			same := cell.G == "S" && cell.Style.Fg == (refterm.Color{Kind: refterm.ColIndex, V: 5}) && cell.Style.Bg == (refterm.Color{Kind: refterm.ColIndex, V: 6})
			if !same && !inside(r, c) {
				return fmt.Sprintf("host cell row %d col %d outside the window changed to %q (window is cols %d..%d rows %d..%d)", r, c, cell.G, st.Col, st.Col+ww-1, st.Row, st.Row+wh-1)
			}
		}
	}
	if term.C.Visible && ww > 0 && wh > 0 && !inside(term.C.Row, term.C.Col) {
		return fmt.Sprintf("hardware cursor placed at row %d col %d, outside the window (cols %d..%d rows %d..%d)", term.C.Row, term.C.Col, st.Col, st.Col+ww-1, st.Row, st.Row+wh-1)
	}
	return ""
}

// ---------------------------------------------------------------------------

func genCase(rt *rapid.T) Case {
	c := Case{Cols: rapid.IntRange(1, 12).Draw(rt, "cols"), Rows: rapid.IntRange(1, 12).Draw(rt, "rows"),
		Focus: rapid.Bool().Draw(rt, "focus"), HostOSC11: rapid.Bool().Draw(rt, "osc11")}
	cols, rows := c.Cols, c.Rows
	n := rapid.IntRange(1, harness.Scale(14, 30)).Draw(rt, "nsteps")
	for i := 0; i < n; i++ {
		switch rapid.IntRange(0, 9).Draw(rt, "step") {
		case 0:
			w, h := rapid.IntRange(1, 12).Draw(rt, "w"), rapid.IntRange(1, 12).Draw(rt, "h")
			c.Steps = append(c.Steps, Step{K: "resize", W: w, H: h})
			cols, rows = w, h
		case 1:
			w, h := rapid.IntRange(1, 12).Draw(rt, "dw"), rapid.IntRange(1, 12).Draw(rt, "dh")
			col := rapid.IntRange(0, hostCols-w).Draw(rt, "dcol")
			row := rapid.IntRange(0, hostRows-h).Draw(rt, "drow")
			c.Steps = append(c.Steps, Step{K: "draw", W: w, H: h, Col: col, Row: row})
			cols, rows = w, h
		case 2:
			c.Steps = append(c.Steps, Step{K: "feed", Bytes: pgen.RawBytes(rt, 24)})
		default:
			c.Steps = append(c.Steps, Step{K: "feed", Bytes: []byte(tgen.Output(rt, cols, rows, 6))})
		}
	}
	return c
}

func label(sub string, c Case) {
	changed, after := false, false
	for _, st := range c.Steps {
		harness.R.Label(sub, "step:"+st.K)
		switch st.K {
		case "resize", "draw":
			changed = true
		case "feed":
			s := string(st.Bytes)
			if changed && (strings.Contains(s, "\x1b[")) {
				after = true
			}
			if strings.Contains(s, "r") || strings.Contains(s, "?1049") || strings.Contains(s, "?6h") {
				changed = true
			}
		}
	}
	if after {
		harness.R.Nontrivial(sub, c)
	}
	harness.R.Sample(sub, c)
}

func TestHistories(t *testing.T) {
	const sub = "histories"
	n := harness.PerShard(harness.Scale(240_000, 8_000_000))
	harness.Check(t, sub, n, func(rt *rapid.T) Case {
		c := genCase(rt)
		label(sub, c)
		return c
	}, run)
}

// boundary parameters x every one-parameter CSI x sizes <= 3x3 (bounded-exhaustive)
func TestBoundaryTable(t *testing.T) {
	if harness.ReplayPath() != "" {
		t.Skip()
	}
	const sub = "boundary-table"
	finals := []string{"@", "A", "B", "C", "D", "E", "F", "G", "I", "J", "K", "L", "M", "P", "S", "T", "X", "Z", "`", "a", "b", "d", "e", "g", "H", "f", "r", " q", "n"}
	prefixes := []string{"", "\x1b[999;999H", "\x1b[999;999Hxx", "xxxxxxxxxxxx", "\x1b[2;2r", "\x1b[?6h", "\x1b[?1049h", "\x1b7\x1b[?1049h", "\x1b[?7l\x1b[999Cxx", "\x1b[4h", "\x1bH\x1bH"}
	idx := 0
	fails := 0
	for cols := 1; cols <= 3; cols++ {
		for rows := 1; rows <= 3; rows++ {
			params := []string{"", "0", "1", fmt.Sprint(cols - 1), fmt.Sprint(cols), fmt.Sprint(cols + 1), fmt.Sprint(rows), fmt.Sprint(rows + 1), "65535", "2147483648", "1000000000000000000", "0;0", "1;1", fmt.Sprintf("%d;%d", rows, cols), fmt.Sprintf("%d;%d", rows+1, cols+1), "0;65535", "3;1", "2;1"}
			for _, pre := range prefixes {
				for _, f := range finals {
					for _, p := range params {
						idx++
						if !harness.Mine(idx) || fails > 3 {
							continue
						}
						c := Case{Cols: cols, Rows: rows, Steps: []Step{{K: "feed", Bytes: []byte(pre + "\x1b[" + p + f + "y\x1b[1K\x1b[1J\x1b[K\n")},
							{K: "resize", W: rows, H: cols}, {K: "feed", Bytes: []byte("\x1b8\x1b[" + p + f + "z")}}}
						harness.R.Eval(sub)
						harness.R.Nontrivial(sub, c)
						if idx%3000 == 1 {
							harness.R.Sample(sub, c)
						}
						if msg := run(c); msg != "" {
							fails++
							harness.Fail(t, sub, msg, c)
						}
					}
				}
			}
		}
	}
	if fails == 0 {
		harness.R.Exhaustive(sub)
	}
}

func TestReplay(t *testing.T) {
	r := harness.Decode(run)
	harness.ReplayAll(t, map[string]harness.Runner{"histories": r, "boundary-table": r, "fuzz": r})
}
