package c19

import (
	"fmt"
	"sort"
	"strings"
	"sync"
	"testing"
	"time"

	vaxis "git.sr.ht/~rockorager/vaxis"
	"git.sr.ht/~rockorager/vaxis/vxfw"
	vlist "git.sr.ht/~rockorager/vaxis/vxfw/list"
	wlist "git.sr.ht/~rockorager/vaxis/widgets/list"
	"git.sr.ht/~rockorager/vaxis/widgets/pager"
	"git.sr.ht/~rockorager/vaxis/widgets/scrollbar"
	"pgregory.net/rapid"

	"verif/internal/harness"
	"verif/internal/refterm"
	"verif/internal/vxdrive"
)

func TestMain(m *testing.M) { harness.Main(m, "C19") }

var (
	hostOnce sync.Once
	host     *vxdrive.Session
	hostMu   sync.Mutex
)

const hostCols, hostRows = 16, 44

func hostVaxis() *vxdrive.Session {
	hostOnce.Do(func() {
		s, err := vxdrive.Start(hostCols, hostRows, refterm.Caps{Unicode2027: true}, vxdrive.Opts{DisableMouse: true})
		if err == nil {
			s.Sync(10 * time.Second)
			s.Drain()
			host = s
		}
	})
	return host
}

func guard(f func()) (p string) {
	defer func() {
		if r := recover(); r != nil {
			p = fmt.Sprint(r)
		}
	}()
	f()
	return ""
}

// rows reads the top-left w x h region of the host terminal as strings, and
// which rows are drawn reversed.
func readRows(h *vxdrive.Session, w, rows int) (text []string, reversed []bool) {
	h.Term.Lock()
	defer h.Term.Unlock()
	for r := 0; r < rows && r < h.Term.Rows; r++ {
		var sb strings.Builder
		rev := false
		for c := 0; c < w && c < h.Term.Cols; c++ {
			cell := h.Term.Cell(r, c)
			if cell.W == 0 {
				continue
			}
			if cell.G == "" {
				sb.WriteString(" ")
			} else {
				sb.WriteString(cell.G)
			}
			if cell.Style.Attrs&refterm.AReverse != 0 {
				rev = true
			}
		}
		text = append(text, sb.String())
		reversed = append(reversed, rev)
	}
	return
}

// ---------------------------------------------------------------------------
// widgets/list.List

type ListOp struct {
	K string `json:"k"` // down up home end pgdn pgup set draw
	N int    `json:"n,omitempty"`
}

type ListCase struct {
	Items  int      `json:"items"`
	Height int      `json:"height"`
	Ops    []ListOp `json:"ops"`
}

func itemsN(n int) []string {
	var out []string
	for i := 0; i < n; i++ {
		out = append(out, fmt.Sprintf("item-%02d", i))
	}
	return out
}

func runList(c ListCase) string {
	h := hostVaxis()
	if h == nil {
		return ""
	}
	hostMu.Lock()
	defer hostMu.Unlock()
	items := itemsN(c.Items)
	l := wlist.New(items)
	n := c.Items
	for i, op := range c.Ops {
		win := h.Vx.Window().New(0, 0, 10, c.Height)
		p := guard(func() {
			switch op.K {
			case "down":
				l.Down()
			case "up":
				l.Up()
			case "home":
				l.Home()
			case "end":
				l.End()
			case "pgdn":
				l.PageDown(win)
			case "pgup":
				l.PageUp(win)
			case "set":
				items = itemsN(op.N)
				n = op.N
				l.SetItems(items)
			case "draw":
				h.Vx.Window().Clear()
				l.Draw(win)
			}
		})
		if p != "" {
			return fmt.Sprintf("op %d %s with %d items, window height %d: panic: %s", i, op.K, n, c.Height, p)
		}
		if n > 0 && (l.Index() < 0 || l.Index() >= n) {
			return fmt.Sprintf("after op %d %s the selected index is %d with %d items", i, op.K, l.Index(), n)
		}
		if op.K == "draw" && n > 0 && c.Height > 0 {
			h.Vx.Render()
			rows, rev := readRows(h, 10, hostRows)
			found := -1
			for r := range rows {
				if rev[r] {
					if found >= 0 {
						return fmt.Sprintf("after op %d draw two rows are shown selected (%d and %d)", i, found, r)
					}
					found = r
				}
			}
			if found < 0 || found >= c.Height {
				return fmt.Sprintf("after op %d draw (index %d of %d, window height %d) the selected item is not shown inside the window (selected row %d); rows %q", i, l.Index(), n, c.Height, found, rows[:c.Height])
			}
			if strings.TrimSpace(rows[found]) != items[l.Index()] {
				return fmt.Sprintf("after op %d draw the row shown selected is %q, the selected item is %q", i, rows[found], items[l.Index()])
			}
			for r := c.Height; r < len(rows); r++ {
				if strings.TrimSpace(rows[r]) != "" {
					return fmt.Sprintf("after op %d draw row %d below the %d-row window shows %q", i, r, c.Height, rows[r])
				}
			}
		}
	}
	return ""
}

// ---------------------------------------------------------------------------
// vxfw/list.Dynamic

type item struct {
	idx int
	h   int
}

func (it *item) HandleEvent(vaxis.Event, vxfw.EventPhase) (vxfw.Command, error) { return nil, nil }
func (it *item) Draw(ctx vxfw.DrawContext) (vxfw.Surface, error) {
	return vxfw.NewSurface(ctx.Max.Width, uint16(it.h), it), nil
}

type DynOp struct {
	K string `json:"k"` // next prev setcursor pending wheelup wheeldown keyj keyk replace draw
	N int    `json:"n,omitempty"`
	H []int  `json:"h,omitempty"` // new item heights for replace
}

type DynCase struct {
	Heights    []int   `json:"heights"`
	Gap        int     `json:"gap"`
	DrawCursor bool    `json:"draw_cursor"`
	Viewport   int     `json:"viewport"`
	Ops        []DynOp `json:"ops"`
}

func runDynamic(c DynCase) string {
	var items []*item
	setItems := func(hs []int) {
		items = nil
		for i, h := range hs {
			items = append(items, &item{i, h})
		}
	}
	setItems(c.Heights)
	d := &vlist.Dynamic{Gap: c.Gap, DrawCursor: c.DrawCursor}
	d.Builder = func(i uint, cursor uint) vxfw.Widget {
		if int(i) >= len(items) {
			return nil
		}
		return items[i]
	}
	ctx := vxfw.DrawContext{Max: vxfw.Size{Width: 10, Height: uint16(c.Viewport)}, Characters: vaxis.Characters}
	selChanged := false
	for i, op := range c.Ops {
		var s vxfw.Surface
		p := guard(func() {
			switch op.K {
			case "next":
				if d.NextItem() != nil {
					selChanged = true
				}
			case "prev":
				if d.PrevItem() != nil {
					selChanged = true
				}
			case "keyj":
				pre := d.Cursor()
				_, _ = d.CaptureEvent(vaxis.Key{Keycode: 'j', Text: "j"})
				selChanged = selChanged || d.Cursor() != pre
			case "keyk":
				pre := d.Cursor()
				_, _ = d.CaptureEvent(vaxis.Key{Keycode: vaxis.KeyUp})
				selChanged = selChanged || d.Cursor() != pre
			case "setcursor":
				if len(items) > 0 {
					pre := d.Cursor()
					d.SetCursor(uint(op.N % len(items)))
					selChanged = selChanged || d.Cursor() != pre
				}
			case "pending":
				d.SetPendingScroll(op.N)
				selChanged = false // the user scrolled after selecting: the statement speaks of a selection change followed by a draw
			case "wheelup":
				_, _ = d.HandleEvent(vaxis.Mouse{Button: vaxis.MouseWheelUp}, vxfw.TargetPhase)
				selChanged = false
			case "wheeldown":
				_, _ = d.HandleEvent(vaxis.Mouse{Button: vaxis.MouseWheelDown}, vxfw.TargetPhase)
				selChanged = false
			case "replace":
				setItems(op.H)
				if len(items) > 0 {
					cur := int(d.Cursor())
					if cur > len(items)-1 {
						cur = len(items) - 1
					}
					pre := d.Cursor()
					d.SetCursor(uint(cur))
					selChanged = selChanged || d.Cursor() != pre
				}
			case "draw":
				s, _ = d.Draw(ctx)
			}
		})
		if p != "" {
			return fmt.Sprintf("op %d %s (items %d, viewport %d): panic: %s", i, op.K, len(items), c.Viewport, p)
		}
		if len(items) > 0 && int(d.Cursor()) >= len(items) {
			return fmt.Sprintf("after op %d %s the cursor is %d with %d items", i, op.K, d.Cursor(), len(items))
		}
		if op.K != "draw" {
			continue
		}
		if s.Size.Width > 10 || int(s.Size.Height) > c.Viewport {
			return fmt.Sprintf("after op %d draw the surface is %dx%d in a 10x%d viewport", i, s.Size.Width, s.Size.Height, c.Viewport)
		}
		// children: consecutive indices, in order, no overlap, holes <= gap
		prevIdx, prevEnd := -1, 0
		selRow, selH, selSeen := 0, 0, false
		for k, ch := range s.Children {
			it, ok := ch.Surface.Widget.(*item)
			if !ok {
				return fmt.Sprintf("after op %d draw child %d is a %T", i, k, ch.Surface.Widget)
			}
			hgt := int(ch.Surface.Size.Height)
			if k > 0 {
				if it.idx != prevIdx+1 {
					return fmt.Sprintf("after op %d draw the children are items %d then %d (not consecutive, in order)", i, prevIdx, it.idx)
				}
				if ch.Origin.Row < prevEnd {
					return fmt.Sprintf("after op %d draw item %d starts at row %d, but item %d ends at row %d (overlap)", i, it.idx, ch.Origin.Row, prevIdx, prevEnd)
				}
				if ch.Origin.Row > prevEnd+c.Gap {
					return fmt.Sprintf("after op %d draw item %d starts at row %d, item %d ended at row %d and the gap is %d (hole)", i, it.idx, ch.Origin.Row, prevIdx, prevEnd, c.Gap)
				}
				if ch.Origin.Row == prevEnd+c.Gap {
					harness.R.Label("dynamic", "spacing:exactly-gap")
				} else {
					harness.R.Label("dynamic", "spacing:less-than-gap")
				}
			}
			prevIdx, prevEnd = it.idx, ch.Origin.Row+hgt
			if it.idx == int(d.Cursor()) {
				selRow, selH, selSeen = ch.Origin.Row, hgt, true
			}
		}
		if selChanged && len(items) > 0 {
			if !selSeen {
				return fmt.Sprintf("after a selection change and a draw (op %d) the selected item %d is not among the drawn children", i, d.Cursor())
			}
			if selH > 0 {
				if selRow >= c.Viewport || selRow+selH <= 0 {
					return fmt.Sprintf("after a selection change and a draw (op %d) the selected item %d occupies rows [%d,%d), outside the %d-row viewport", i, d.Cursor(), selRow, selRow+selH, c.Viewport)
				}
				if selH <= c.Viewport && (selRow < 0 || selRow+selH > c.Viewport) {
					return fmt.Sprintf("after a selection change and a draw (op %d) the selected item %d (height %d) fits the %d-row viewport but is shown at rows [%d,%d)", i, d.Cursor(), selH, c.Viewport, selRow, selRow+selH)
				}
			}
		}
		selChanged = false
	}
	return ""
}

// ---------------------------------------------------------------------------
// pager

type PagerCase struct {
	Text    []string `json:"text"`
	Width   int      `json:"width"`
	Height  int      `json:"height"`
	Scrolls []int    `json:"scrolls"`          // +1 down, -1 up, 0 draw
	Cuts    []int    `json:"cuts,omitempty"`   // the text is handed over as segments cut before these cluster indices
	Width2  int      `json:"width2,omitempty"` // the model was drawn at this width before (0 = not)
}

// segments cuts the text into the segments the pager is given (never inside a
// cluster).
func (c PagerCase) segments() []vaxis.Segment {
	var out []vaxis.Segment
	start := 0
	cuts := append(append([]int{}, c.Cuts...), len(c.Text))
	sort.Ints(cuts)
	for i, cut := range cuts {
		if cut > len(c.Text) {
			cut = len(c.Text)
		}
		if cut < start {
			continue
		}
		out = append(out, vaxis.Segment{Text: strings.Join(c.Text[start:cut], ""), Style: vaxis.Style{Foreground: vaxis.IndexColor(uint8(i + 1))}})
		start = cut
	}
	return out
}

func nonBlank(gs []string) string {
	var sb strings.Builder
	for _, g := range gs {
		if g != " " && !isBreak(g) {
			sb.WriteString(g)
		}
	}
	return sb.String()
}

// isBreak: a line terminator of the generated texts (LF, or CR LF, which is
// one grapheme cluster).
func isBreak(g string) bool { return g == "\n" || g == "\r\n" }

func runPager(c PagerCase) string {
	h := hostVaxis()
	if h == nil {
		return ""
	}
	hostMu.Lock()
	defer hostMu.Unlock()
	text := strings.Join(c.Text, "")
	want := nonBlank(c.Text)
	// (1) everything is presented: a window tall enough for every line
	m := &pager.Model{Segments: c.segments()}
	h.Vx.Window().Clear()
	if p := guard(func() { m.Draw(h.Vx.Window().New(0, 0, c.Width, 40)) }); p != "" {
		return fmt.Sprintf("pager text %q width %d: Draw panicked: %s", text, c.Width, p)
	}
	h.Vx.Render()
	rows, _ := readRows(h, hostCols, 40)
	var got strings.Builder
	for r, row := range rows {
		got.WriteString(strings.ReplaceAll(row, " ", ""))
		_ = r
	}
	if got.String() != want {
		return fmt.Sprintf("pager text %q at width %d presents %q, the text's characters are %q (rows %q)", text, c.Width, got.String(), want, trimRows(rows))
	}
	// every line of the text is presented as a line: two characters with k
	// line terminators between them are at least k rows apart (the alphabet's
	// visible clusters are single runes)
	var rowOf []int
	for r, row := range rows {
		for _, ch := range row {
			if ch != ' ' {
				rowOf = append(rowOf, r)
			}
		}
	}
	prev, breaks, vis := -1, 0, 0
	for _, g := range c.Text {
		switch {
		case isBreak(g):
			breaks++
		case g == " ":
		default:
			if prev >= 0 && vis < len(rowOf) && rowOf[vis]-rowOf[prev] < breaks {
				return fmt.Sprintf("pager text %q at width %d: %d line terminator(s) lie between visible characters %d and %d, but they are drawn on rows %d and %d (rows %q)", text, c.Width, breaks, prev, vis, rowOf[prev], rowOf[vis], trimRows(rows))
			}
			prev, breaks = vis, 0
			vis++
		}
	}
	// the same model in a window that had another width before: what it
	// shows is a function of the text and the window, not of earlier frames
	if c.Width2 >= 2 && c.Width2 != c.Width {
		m3 := &pager.Model{Segments: c.segments()}
		h.Vx.Window().Clear()
		if p := guard(func() { m3.Draw(h.Vx.Window().New(0, 0, c.Width2, 40)) }); p != "" {
			return fmt.Sprintf("pager text %q width %d: Draw panicked: %s", text, c.Width2, p)
		}
		h.Vx.Window().Clear()
		if p := guard(func() { m3.Draw(h.Vx.Window().New(0, 0, c.Width, 40)) }); p != "" {
			return fmt.Sprintf("pager text %q width %d after width %d: Draw panicked: %s", text, c.Width, c.Width2, p)
		}
		h.Vx.Render()
		rows3, _ := readRows(h, hostCols, 40)
		if strings.Join(trimRows(rows3), "\n") != strings.Join(trimRows(rows), "\n") {
			return fmt.Sprintf("pager text %q at width %d: a model drawn before at width %d shows %q, a new one shows %q", text, c.Width, c.Width2, trimRows(rows3), trimRows(rows))
		}
		// leave the screen as the first model drew it for the checks below
		h.Vx.Window().Clear()
		m.Draw(h.Vx.Window().New(0, 0, c.Width, 40))
		h.Vx.Render()
	}
	// nothing is drawn right of the window
	h.Term.Lock()
	for r := 0; r < 40; r++ {
		for col := c.Width; col < hostCols; col++ {
			if cell := h.Term.Cell(r, col); cell.G != "" && cell.G != " " || cell.W == 0 {
				h.Term.Unlock()
				return fmt.Sprintf("pager text %q at width %d draws %q at column %d, outside the window", text, c.Width, cell.G, col)
			}
		}
	}
	h.Term.Unlock()
	// (2) scrolling
	m2 := &pager.Model{Segments: c.segments()}
	win := h.Vx.Window().New(0, 0, c.Width, c.Height)
	for i, s := range c.Scrolls {
		p := guard(func() {
			switch {
			case s > 0:
				m2.ScrollDown()
			case s < 0:
				m2.ScrollUp()
			default:
				h.Vx.Window().Clear()
				m2.Draw(win)
			}
		})
		if p != "" {
			return fmt.Sprintf("pager text %q: scroll step %d panicked: %s", text, i, p)
		}
		if s == 0 && m2.Offset < 0 {
			return fmt.Sprintf("pager text %q: after a draw the offset is %d", text, m2.Offset)
		}
	}
	// scroll to the very end: the end of the text must be on screen
	for i := 0; i < 60; i++ {
		m2.ScrollDown()
	}
	h.Vx.Window().Clear()
	if p := guard(func() { m2.Draw(win) }); p != "" {
		return fmt.Sprintf("pager text %q: Draw after scrolling to the end panicked: %s", text, p)
	}
	if m2.Offset < 0 {
		return fmt.Sprintf("pager text %q: offset %d after scrolling to the end", text, m2.Offset)
	}
	lastIsBlank := len(c.Text) == 0 || c.Text[len(c.Text)-1] == " " || isBreak(c.Text[len(c.Text)-1])
	if c.Height > 0 && want != "" && !lastIsBlank {
		h.Vx.Render()
		rows, _ := readRows(h, hostCols, c.Height)
		var sb strings.Builder
		for _, row := range rows {
			sb.WriteString(strings.ReplaceAll(row, " ", ""))
		}
		shown := sb.String()
		if shown == "" || !strings.HasSuffix(want, shown) {
			// the window shows a suffix of the text when scrolled to the end
			if !(shown != "" && strings.HasSuffix(want, shown)) {
				lastNonBlank := ""
				for i := len(c.Text) - 1; i >= 0; i-- {
					if c.Text[i] != " " && !isBreak(c.Text[i]) {
						lastNonBlank = c.Text[i]
						break
					}
				}
				// trailing blank lines may fill the window legitimately
				trailingLines := 0
				for i := len(c.Text) - 1; i >= 0 && (isBreak(c.Text[i]) || c.Text[i] == " "); i-- {
					if isBreak(c.Text[i]) {
						trailingLines++
					}
				}
				if trailingLines < c.Height && !strings.HasSuffix(shown, lastNonBlank) {
					return fmt.Sprintf("pager text %q (width %d, height %d): scrolled to the end the window shows %q, the text ends with %q", text, c.Width, c.Height, trimRows(rows), lastNonBlank)
				}
			}
		}
	}
	return ""
}

func trimRows(rows []string) []string {
	var out []string
	for _, r := range rows {
		out = append(out, strings.TrimRight(r, " "))
	}
	for len(out) > 0 && out[len(out)-1] == "" {
		out = out[:len(out)-1]
	}
	return out
}

// ---------------------------------------------------------------------------

type ScrollCase struct {
	Total, View, Top, H int
}

func runScrollbar(c ScrollCase) string {
	h := hostVaxis()
	if h == nil {
		return ""
	}
	hostMu.Lock()
	defer hostMu.Unlock()
	sb := &scrollbar.Model{TotalHeight: c.Total, ViewHeight: c.View, Top: c.Top}
	if p := guard(func() { sb.Draw(h.Vx.Window().New(0, 0, 1, c.H)) }); p != "" {
		return fmt.Sprintf("scrollbar %+v: Draw panicked: %s", c, p)
	}
	return ""
}

// ---------------------------------------------------------------------------

type Case struct {
	List   *ListCase   `json:"list,omitempty"`
	Dyn    *DynCase    `json:"dyn,omitempty"`
	Pager  *PagerCase  `json:"pager,omitempty"`
	Scroll *ScrollCase `json:"scroll,omitempty"`
}

func run(c Case) string {
	switch {
	case c.List != nil:
		return runList(*c.List)
	case c.Dyn != nil:
		return runDynamic(*c.Dyn)
	case c.Pager != nil:
		return runPager(*c.Pager)
	case c.Scroll != nil:
		return runScrollbar(*c.Scroll)
	}
	return ""
}

func TestList(t *testing.T) {
	const sub = "list"
	n := harness.PerShard(harness.Scale(20_000, 10_000_000))
	harness.Check(t, sub, n, func(rt *rapid.T) Case {
		c := ListCase{Items: rapid.IntRange(0, 12).Draw(rt, "items"), Height: rapid.IntRange(0, 6).Draw(rt, "height")}
		k := rapid.IntRange(1, 20).Draw(rt, "nops")
		replaced := false
		for i := 0; i < k; i++ {
			op := ListOp{K: rapid.SampledFrom([]string{"down", "down", "up", "home", "end", "pgdn", "pgup", "set", "draw", "draw"}).Draw(rt, "op")}
			if op.K == "set" {
				op.N = rapid.IntRange(0, 12).Draw(rt, "n")
				replaced = true
			}
			c.Ops = append(c.Ops, op)
		}
		c.Ops = append(c.Ops, ListOp{K: "draw"})
		cc := Case{List: &c}
		if replaced {
			harness.R.Nontrivial(sub, cc)
		}
		harness.R.Sample(sub, cc)
		return cc
	}, run)
}

func TestDynamic(t *testing.T) {
	const sub = "dynamic"
	n := harness.PerShard(harness.Scale(150_000, 40_000_000))
	heights := func(rt *rapid.T, label string) []int {
		k := rapid.IntRange(0, 12).Draw(rt, label+"-n")
		var hs []int
		for i := 0; i < k; i++ {
			hs = append(hs, rapid.IntRange(0, 4).Draw(rt, label))
		}
		return hs
	}
	harness.Check(t, sub, n, func(rt *rapid.T) Case {
		c := DynCase{Heights: heights(rt, "h"), Gap: rapid.IntRange(0, 2).Draw(rt, "gap"), DrawCursor: rapid.Bool().Draw(rt, "dc"), Viewport: rapid.IntRange(1, 8).Draw(rt, "vp")}
		k := rapid.IntRange(1, 25).Draw(rt, "nops")
		scrolled, nt := false, false
		for i := 0; i < k; i++ {
			op := DynOp{K: rapid.SampledFrom([]string{"next", "next", "next", "prev", "prev", "keyj", "keyk", "setcursor", "pending", "wheelup", "wheeldown", "replace", "draw", "draw", "draw"}).Draw(rt, "op")}
			switch op.K {
			case "setcursor":
				op.N = rapid.IntRange(0, 11).Draw(rt, "idx")
			case "pending":
				op.N = rapid.IntRange(-6, 6).Draw(rt, "lines")
			case "replace":
				op.H = heights(rt, "rh")
			}
			if op.K == "pending" || op.K == "wheeldown" || op.K == "replace" {
				scrolled = true
			}
			if scrolled && (op.K == "next" || op.K == "prev" || op.K == "setcursor") {
				nt = true
			}
			c.Ops = append(c.Ops, op)
		}
		c.Ops = append(c.Ops, DynOp{K: "draw"})
		cc := Case{Dyn: &c}
		if nt {
			harness.R.Nontrivial(sub, cc)
		}
		harness.R.Sample(sub, cc)
		return cc
	}, run)
}

func TestPager(t *testing.T) {
	const sub = "pager"
	n := harness.PerShard(harness.Scale(12_000, 5_000_000))
	harness.Check(t, sub, n, func(rt *rapid.T) Case {
		// (a wide character cannot be shown in a one-column window at all)
		c := PagerCase{Width: rapid.IntRange(2, 8).Draw(rt, "w"), Height: rapid.IntRange(0, 5).Draw(rt, "h")}
		k := rapid.IntRange(0, 24).Draw(rt, "len")
		for i := 0; i < k; i++ {
			c.Text = append(c.Text, rapid.SampledFrom([]string{"a", "a", "b", "宽", " ", "\n"}).Draw(rt, "g"))
		}
		if rapid.Bool().Draw(rt, "resized") {
			c.Width2 = rapid.IntRange(2, 12).Draw(rt, "w2")
			harness.R.Label(sub, "model drawn before at another width")
		}
		if k > 1 && rapid.IntRange(0, 2).Draw(rt, "segmented") == 1 {
			harness.R.Label(sub, "text in several segments")
			c.Cuts = rapid.SliceOfN(rapid.IntRange(0, k), 1, 3).Draw(rt, "cuts")
		}
		if rapid.IntRange(0, 3).Draw(rt, "crlf") == 1 {
			// DOS / network line endings: CR LF is one cluster
			harness.R.Label(sub, "CR LF line endings")
			for i, g := range c.Text {
				if g == "\n" {
					c.Text[i] = "\r\n"
				}
			}
		}
		if rapid.Bool().Draw(rt, "final-lf") {
			c.Text = append(c.Text, "\n")
		}
		ns := rapid.IntRange(0, 12).Draw(rt, "nscroll")
		for i := 0; i < ns; i++ {
			c.Scrolls = append(c.Scrolls, rapid.SampledFrom([]int{1, 1, -1, 0}).Draw(rt, "s"))
		}
		cc := Case{Pager: &c}
		w := 0
		for _, g := range c.Text {
			if isBreak(g) {
				w = 0
			} else if g == "宽" {
				w += 2
			} else {
				w++
			}
			if w > c.Width {
				harness.R.Nontrivial(sub, cc)
				break
			}
		}
		harness.R.Sample(sub, cc)
		return cc
	}, run)
}

func TestScrollbar(t *testing.T) {
	const sub = "scrollbar"
	n := harness.PerShard(harness.Scale(20_000, 1_000_000))
	vals := []int{-5, -1, 0, 1, 2, 3, 7, 100, 1 << 31, 1 << 62}
	harness.Check(t, sub, n, func(rt *rapid.T) Case {
		c := ScrollCase{Total: rapid.SampledFrom(vals).Draw(rt, "total"), View: rapid.SampledFrom(vals).Draw(rt, "view"), Top: rapid.SampledFrom(vals).Draw(rt, "top"), H: rapid.IntRange(0, 5).Draw(rt, "h")}
		cc := Case{Scroll: &c}
		harness.R.Nontrivial(sub, cc)
		harness.R.Sample(sub, cc)
		return cc
	}, run)
}

func TestReplay(t *testing.T) {
	r := harness.Decode(run)
	harness.ReplayAll(t, map[string]harness.Runner{"list": r, "dynamic": r, "pager": r, "scrollbar": r})
}
