package c09

import (
	"fmt"
	"strings"
	"testing"
	"time"
	"unicode"
	"unicode/utf8"

	vaxis "git.sr.ht/~rockorager/vaxis"
	"pgregory.net/rapid"

	"verif/internal/harness"
	"verif/internal/keyspec"
	"verif/internal/refterm"
	"verif/internal/vxdrive"
)

func TestMain(m *testing.M) { harness.Main(m, "C09") }

// Enc is one encoding spec (JSON-able), expanded by build().
type Enc struct {
	K  string         `json:"k"` // text c0 alt ss3 csil csit mok stab kitty
	G  string         `json:"g,omitempty"`
	B  int            `json:"b,omitempty"`
	S  int            `json:"s,omitempty"`
	N  int            `json:"n,omitempty"`
	M  int            `json:"m,omitempty"`
	Ky *keyspec.Kitty `json:"ky,omitempty"`
}

func build(e Enc) (string, keyspec.Want) {
	switch e.K {
	case "text":
		return keyspec.LegacyText(e.G)
	case "c0":
		return keyspec.LegacyC0(byte(e.B))
	case "alt":
		return keyspec.LegacyAlt(byte(e.B))
	case "ss3":
		return keyspec.LegacySS3(keyspec.Specials[e.S])
	case "csil":
		return keyspec.LegacyCSILetter(keyspec.Specials[e.S], e.M)
	case "csit":
		return keyspec.LegacyCSITilde(keyspec.Specials[e.S], e.N, e.M)
	case "mok":
		return keyspec.LegacyModifyOther(rune(e.B), e.M)
	case "stab":
		return keyspec.ShiftTab()
	case "kitty":
		return e.Ky.Encode(), e.Ky.Want()
	}
	return "", keyspec.Want{}
}

func keyOf(w keyspec.Want) vaxis.Key {
	return vaxis.Key{Keycode: w.Keycode, ShiftedCode: w.ShiftedCode, BaseLayoutCode: w.BaseLayoutCode, Modifiers: w.Modifiers, EventType: w.EventType, Text: w.Text}
}

// ---------------------------------------------------------------------------
// (a) decode exactness through the live pipeline

const sentinel = 0xFFFFD

type Batch struct {
	Encs []Enc `json:"encs"`
}

func runBatchOnce(b Batch) string {
	s, err := vxdrive.Start(10, 2, refterm.Caps{}, vxdrive.Opts{})
	if err != nil {
		return "vaxis.New failed: " + err.Error()
	}
	defer s.Close(5 * time.Second)
	s.Sync(10 * time.Second)
	s.Drain()
	return decodeOn(s, b)
}

func decodeOn(s *vxdrive.Session, b Batch) string {
	var stream []byte
	wants := make([]keyspec.Want, len(b.Encs))
	raws := make([]string, len(b.Encs))
	for i, e := range b.Encs {
		raw, w := build(e)
		stream = append(stream, raw...)
		wants[i], raws[i] = w, raw
	}
	stream = append(stream, fmt.Sprintf("\x1b[%du", sentinel)...)
	s.TTY.Inject(stream)
	deadline := time.NewTimer(20 * time.Second)
	defer deadline.Stop()
	i := 0
	for {
		select {
		case ev := <-s.Vx.Events():
			k, ok := ev.(vaxis.Key)
			if !ok {
				switch ev.(type) {
				case vaxis.Mouse, vaxis.FocusIn, vaxis.FocusOut, vaxis.PasteStartEvent, vaxis.PasteEndEvent:
					if i < len(wants) {
						return fmt.Sprintf("key report %q produced a %T event", raws[i], ev)
					}
				}
				continue
			}
			if k.Keycode == sentinel {
				if i != len(wants) {
					return fmt.Sprintf("key report %q (#%d of %d) produced no Key event", raws[i], i, len(wants))
				}
				return ""
			}
			if i >= len(wants) {
				return fmt.Sprintf("extra Key event %+v after the last report", k)
			}
			if msg := wants[i].Check(k); msg != "" {
				return fmt.Sprintf("key report %q: %s", raws[i], msg)
			}
			i++
		case <-deadline.C:
			return "-"
		}
	}
}

var sampleRunes = []int{0x444, 0x424, 0x3c9, 0x5bbd, 0xe9, 0xc9, 0x1f600}

func kittyCodes() []int {
	var out []int
	for c := 0x20; c < 0x7f; c++ {
		out = append(out, c)
	}
	out = append(out, 9, 13, 27, 127)
	out = append(out, sampleRunes...)
	for _, s := range keyspec.Specials {
		if s.Kitty != 0 {
			out = append(out, s.Kitty)
		}
	}
	// supplementary-plane code points whose low 16 bits are the code of a
	// named key (Enter, Tab, Escape, the private-use functional keys): they
	// are ordinary characters and must not be taken for that key
	for _, low := range []int{13, 9, 27, 127, 57344, 57358, 57364, 57399, 57441} {
		out = append(out, 0x10000+low, 0x20000+low)
	}
	return out
}

// allEncodings enumerates the bounded-exhaustive decode domain.
func allEncodings(yield func(Enc)) {
	for c := 0x20; c <= 0x7f; c++ {
		yield(Enc{K: "text", G: string(rune(c))})
	}
	for _, g := range []string{"é", "É", "ф", "Ф", "宽", "😀", "e\u0301", "👩‍🚀", "Ａ"} {
		yield(Enc{K: "text", G: g})
	}
	for c := 0; c < 0x20; c++ {
		if c != 0x1b {
			yield(Enc{K: "c0", B: c})
		}
	}
	for c := 0x30; c <= 0x7f; c++ {
		if keyspec.AltPrefixable(byte(c)) {
			yield(Enc{K: "alt", B: c})
		}
	}
	yield(Enc{K: "stab"})
	for i, s := range keyspec.Specials {
		if s.SS3 != 0 {
			yield(Enc{K: "ss3", S: i})
		}
		for m := 0; m < 256; m++ {
			if s.Letter != 0 && s.Letter != 'R' {
				yield(Enc{K: "csil", S: i, M: m})
			}
			for _, n := range s.Tilde {
				yield(Enc{K: "csit", S: i, N: n, M: m})
			}
		}
	}
	for _, k := range []int{9, 13, 27, 32, 'a', '1', ';', 127} {
		for m := 1; m < 16; m++ {
			yield(Enc{K: "mok", B: k, M: m})
		}
	}
	for _, code := range kittyCodes() {
		for m := -1; m < 256; m++ {
			yield(Enc{K: "kitty", Ky: &keyspec.Kitty{Code: code, Mods: m}})
			for ev := 1; ev <= 3; ev++ {
				if m%5 == ev || m < 8 {
					yield(Enc{K: "kitty", Ky: &keyspec.Kitty{Code: code, Mods: m, Event: ev}})
				}
			}
		}
	}
	// optional fields
	for _, code := range []int{'a', 'z', '1', ';', 0x444, 32, 13} {
		for _, sh := range []int{0, 'A', ':', '!', 0x424} {
			for _, base := range []int{0, 'q', 'a'} {
				for _, m := range []int{-1, 0, 1, 2, 4, 5, 64, 65, 128, 255} {
					// associated text of every character class: letters, a
					// combining mark, an emoji, a ZWJ sequence, a ZWNJ word,
					// spaces other than U+0020 (NBSP, ideographic), private use
					for _, txt := range [][]int{nil, {'a'}, {'A'}, {0xe9, 0x301}, {0x1f600}, {0x1f468, 0x200d, 0x1f469}, {'a', 0x200c, 'b'}, {0xa0}, {0x3000}, {0xf8ff}} {
						yield(Enc{K: "kitty", Ky: &keyspec.Kitty{Code: code, Shifted: sh, Base: base, Mods: m, Text: txt}})
					}
				}
			}
		}
	}
}

func nontrivialEnc(e Enc) bool {
	switch e.K {
	case "kitty":
		return e.Ky.Mods > 0 || e.Ky.Event != 0 || e.Ky.Shifted != 0 || e.Ky.Base != 0 || len(e.Ky.Text) > 0
	case "csil", "csit", "mok":
		return e.M > 0
	}
	return false
}

func TestDecodeExhaustive(t *testing.T) {
	if harness.ReplayPath() != "" {
		t.Skip()
	}
	const sub = "decode"
	var mine []Enc
	idx := 0
	allEncodings(func(e Enc) {
		idx++
		if harness.Mine(idx / 256) { // contiguous blocks per shard
			mine = append(mine, e)
		}
	})
	s, err := vxdrive.Start(10, 2, refterm.Caps{}, vxdrive.Opts{})
	if err != nil {
		t.Fatal(err)
	}
	defer s.Close(5 * time.Second)
	s.Sync(10 * time.Second)
	s.Drain()
	const bs = 400
	for off := 0; off < len(mine); off += bs {
		end := off + bs
		if end > len(mine) {
			end = len(mine)
		}
		b := Batch{Encs: mine[off:end]}
		for _, e := range b.Encs {
			harness.R.Eval(sub)
			if nontrivialEnc(e) {
				harness.R.Nontrivial(sub, e)
			}
		}
		if off == 0 {
			harness.R.Sample(sub, Batch{Encs: b.Encs[:min(4, len(b.Encs))]})
		}
		msg := decodeOn(s, b)
		if msg == "-" {
			t.Log("decode batch timed out (inconclusive)")
			return
		}
		if msg != "" {
			// isolate the single failing encoding on a fresh session
			for _, e := range b.Encs {
				one := Batch{Encs: []Enc{e}}
				if m2 := runBatchOnce(one); m2 != "" && m2 != "-" {
					harness.Fail(t, sub, m2, one)
					return
				}
			}
			// not attributable to one encoding: re-confirm the batch on fresh
			// sessions (DESIGN §2.6: the parser's 10 ms Escape timer can fire
			// on a loaded machine although the next byte was already there)
			if m2 := runBatchOnce(b); m2 != "" && m2 != "-" {
				if m3 := runBatchOnce(b); m3 != "" && m3 != "-" {
					harness.Fail(t, sub, m3, b)
					return
				}
			}
			harness.R.Label("confirm", "batch-failure-not-reproduced")
			s.Close(5 * time.Second)
			s, err = vxdrive.Start(10, 2, refterm.Caps{}, vxdrive.Opts{})
			if err != nil {
				t.Fatal(err)
			}
			s.Sync(10 * time.Second)
			s.Drain()
		}
	}
	harness.R.Exhaustive(sub)
}

func min(a, b int) int {
	if a < b {
		return a
	}
	return b
}

// ---------------------------------------------------------------------------
// matching laws

const allMods = vaxis.ModShift | vaxis.ModAlt | vaxis.ModCtrl | vaxis.ModSuper | vaxis.ModHyper | vaxis.ModMeta | vaxis.ModCapsLock | vaxis.ModNumLock
const strictMods = vaxis.ModAlt | vaxis.ModCtrl | vaxis.ModSuper | vaxis.ModHyper | vaxis.ModMeta
const locks = vaxis.ModCapsLock | vaxis.ModNumLock

// documented: the transcription of the doc comment of Key.Matches.
func documented(k vaxis.Key, key rune, mods vaxis.ModifierMask) bool {
	mods &^= locks
	kMods := k.Modifiers &^ locks
	kNoShift := kMods &^ vaxis.ModShift
	noShift := mods &^ vaxis.ModShift
	// 1. Keycode and Modifiers are exact matches
	if k.Keycode == key && mods == kMods {
		return true
	}
	// 2. Text and Modifiers are exact matches
	if k.Text == string(key) && mods == kMods {
		return true
	}
	// 3. ShiftedCode and Modifiers (with ModShift removed) are exact matches
	if k.ShiftedCode == key && mods == kNoShift {
		return true
	}
	// 4. BaseLayoutCode and Modifiers are exact matches
	if k.BaseLayoutCode == key && mods == kMods {
		return true
	}
	// If key is not a letter, but still a graphic
	if !unicode.IsLetter(key) && unicode.IsGraphic(key) {
		// 5. Keycode and Modifiers (without ModShift) are exact matches
		if k.Keycode == key && kNoShift == noShift {
			return true
		}
		// 6. Shifted Keycode and Modifiers (without ModShift) are exact matches
		if k.ShiftedCode == key && kNoShift == noShift {
			return true
		}
	}
	// If key is lowercase and mods includes ModShift, uppercase Key, remove
	// ModShift: Text and Modifiers are exact matches
	if mods&vaxis.ModShift != 0 && unicode.IsLower(key) {
		if k.Text == string(unicode.ToUpper(key)) && noShift == kNoShift {
			return true
		}
	}
	return false
}

type Pair struct {
	E    Enc `json:"enc"`
	Key  int `json:"key"`  // binding key (rune)
	Mods int `json:"mods"` // binding mask
}

var bindingKeys = func() []rune {
	var out []rune
	for c := 0x20; c < 0x7f; c++ {
		out = append(out, rune(c))
	}
	out = append(out, 9, 13, 27, 127)
	for _, r := range sampleRunes {
		out = append(out, rune(r))
	}
	for _, s := range keyspec.Specials {
		out = append(out, s.Key)
	}
	return out
}()

func checkPair(p Pair) string {
	_, w := build(p.E)
	k := keyOf(w)
	key := rune(p.Key)
	mods := vaxis.ModifierMask(p.Mods)
	got := k.Matches(key, mods)
	// (b) soundness
	if got && (k.Modifiers&strictMods) != (mods&strictMods) {
		return fmt.Sprintf("key %v matches binding (%q,%08b) although Ctrl/Alt/Super/Hyper/Meta differ (%08b vs %08b)", w, key, int(mods), int(k.Modifiers&strictMods), int(mods&strictMods))
	}
	// (c) lock independence, all four lock states on either side
	for _, l := range []vaxis.ModifierMask{vaxis.ModCapsLock, vaxis.ModNumLock, locks} {
		k2 := k
		k2.Modifiers ^= l
		if k2.Matches(key, mods) != got {
			return fmt.Sprintf("toggling lock bits %08b on the key event %v changes Matches(%q,%08b) from %v", int(l), w, key, int(mods), got)
		}
		if k.Matches(key, mods^l) != got {
			return fmt.Sprintf("toggling lock bits %08b on the binding changes %v.Matches(%q,%08b) from %v", int(l), w, key, int(mods), got)
		}
	}
	// modifiers passed separately or combined are the same binding
	if k.Matches(key, mods&0x0f, mods&0xf0) != got {
		return fmt.Sprintf("%v.Matches(%q, %08b, %08b) differs from Matches with the combined mask", w, key, int(mods&0x0f), int(mods&0xf0))
	}
	// (d) documented shift forgiveness
	if want := documented(k, key, mods); want != got {
		return fmt.Sprintf("%v.Matches(%q,%08b) = %v, the documented rules give %v", w, key, int(mods), got, want)
	}
	return ""
}

func related(p Pair) bool {
	_, w := build(p.E)
	key := rune(p.Key)
	diff := int(w.Modifiers&^locks) ^ (p.Mods &^ int(locks))
	bits := 0
	for d := diff; d != 0; d &= d - 1 {
		bits++
	}
	sameKey := w.Keycode == key || w.ShiftedCode == key || w.BaseLayoutCode == key || w.Text == string(key) ||
		unicode.ToUpper(w.Keycode) == key || unicode.ToLower(key) == w.Keycode
	return sameKey && bits <= 1
}

func genEnc(rt *rapid.T) Enc {
	switch rapid.IntRange(0, 9).Draw(rt, "enc") {
	case 0:
		return Enc{K: "text", G: string(rune(rapid.IntRange(0x20, 0x7f).Draw(rt, "ch")))}
	case 1:
		b := rapid.IntRange(0, 0x1f).Draw(rt, "c0")
		return Enc{K: "c0", B: b}
	case 2:
		for {
			b := rapid.IntRange(0x30, 0x7f).Draw(rt, "alt")
			if keyspec.AltPrefixable(byte(b)) {
				return Enc{K: "alt", B: b}
			}
		}
	case 3:
		for {
			i := rapid.IntRange(0, len(keyspec.Specials)-1).Draw(rt, "sp")
			s := keyspec.Specials[i]
			if s.Letter != 0 {
				return Enc{K: "csil", S: i, M: rapid.IntRange(0, 255).Draw(rt, "m")}
			}
			if len(s.Tilde) > 0 {
				return Enc{K: "csit", S: i, N: s.Tilde[0], M: rapid.IntRange(0, 255).Draw(rt, "m")}
			}
		}
	case 4:
		return Enc{K: "stab"}
	default:
		k := keyspec.Kitty{Code: rapid.SampledFrom(kittyCodes()).Draw(rt, "code"), Mods: rapid.IntRange(-1, 255).Draw(rt, "mods")}
		if rapid.Bool().Draw(rt, "sh") && k.Code < 0x7f && k.Code >= 0x20 {
			up := unicode.ToUpper(rune(k.Code))
			if up != rune(k.Code) {
				k.Shifted = int(up)
			} else {
				k.Shifted = rapid.SampledFrom([]int{'!', ':', '+', '"'}).Draw(rt, "shv")
			}
		}
		if rapid.IntRange(0, 3).Draw(rt, "base") == 0 {
			k.Base = rapid.SampledFrom([]int{'q', 'a', ';'}).Draw(rt, "basev")
		}
		if rapid.IntRange(0, 2).Draw(rt, "text") == 0 {
			if k.Shifted != 0 && k.Mods > 0 && k.Mods&1 != 0 {
				k.Text = []int{k.Shifted}
			} else if k.Code >= 0x20 && k.Code < 0x7f {
				k.Text = []int{k.Code}
			}
			if rapid.IntRange(0, 3).Draw(rt, "text-class") == 1 {
				k.Text = rapid.SampledFrom([][]int{{0x1f468, 0x200d, 0x1f469}, {'a', 0x200c, 'b'}, {0xa0}, {0x3000}, {0xf8ff}, {0xe9, 0x301}}).Draw(rt, "textv")
			}
		}
		if rapid.IntRange(0, 4).Draw(rt, "ev") == 0 {
			k.Event = rapid.IntRange(1, 3).Draw(rt, "evv")
		}
		return Enc{K: "kitty", Ky: &k}
	}
}

func TestMatchingLaws(t *testing.T) {
	const sub = "matching"
	n := harness.PerShard(harness.Scale(15_000_000, 400_000_000))
	// rapid per pair is too slow for millions: one rapid case = one key
	// event against a block of bindings
	blocks := n / 512
	if blocks < 1 {
		blocks = 1
	}
	harness.Check(t, sub, blocks, func(rt *rapid.T) Pair {
		e := genEnc(rt)
		return Pair{E: e, Key: rapid.IntRange(0, len(bindingKeys)-1).Draw(rt, "startkey"), Mods: rapid.IntRange(0, 255).Draw(rt, "startmods")}
	}, func(p Pair) string {
		_, w := build(p.E)
		// the bindings most likely to be confused: every related key x all 256 masks,
		// then a stride through the rest of the domain
		cands := []rune{w.Keycode, w.ShiftedCode, w.BaseLayoutCode, unicode.ToUpper(w.Keycode), unicode.ToLower(w.Keycode), bindingKeys[p.Key]}
		if r, sz := utf8.DecodeRuneInString(w.Text); sz > 0 && sz == len(w.Text) {
			cands = append(cands, r)
		}
		cnt := 0
		for ci, key := range cands {
			if key == 0 && ci < 5 {
				continue
			}
			step := 1
			if ci >= 3 {
				step = 5
			}
			for m := (p.Mods % step); m < 256; m += step {
				q := Pair{E: p.E, Key: int(key), Mods: m}
				cnt++
				if related(q) {
					harness.R.Nontrivial(sub, q)
				}
				if msg := checkPair(q); msg != "" {
					return msg
				}
			}
		}
		harness.R.EvalN(sub+"-pairs", int64(cnt))
		if p.Mods == 0 {
			harness.R.Sample(sub, p)
		}
		return ""
	})
}

// ---------------------------------------------------------------------------
// (e) self-match, (f) MatchString == Matches(parse)

type Chord struct {
	Key  int    `json:"key"`
	Mods int    `json:"mods"`
	Enc  string `json:"enc"` // legacy | kitty
}

var modNames = []struct {
	m    vaxis.ModifierMask
	name string
}{{vaxis.ModShift, "Shift"}, {vaxis.ModAlt, "Alt"}, {vaxis.ModCtrl, "Ctrl"}, {vaxis.ModSuper, "Super"}, {vaxis.ModHyper, "Hyper"}, {vaxis.ModMeta, "Meta"}, {vaxis.ModCapsLock, "Caps"}, {vaxis.ModNumLock, "Num"}}

func bindingString(key rune, mods vaxis.ModifierMask, variant int) string {
	var parts []string
	for _, mn := range modNames {
		if mods&mn.m != 0 {
			n := mn.name
			switch variant % 3 {
			case 1:
				n = strings.ToLower(n)
			case 2:
				n = strings.ToUpper(n)
			}
			parts = append(parts, n)
		}
	}
	parts = append(parts, keyName(key))
	return strings.Join(parts, "+")
}

// keyName is the name the binding syntax uses for a key: the character
// itself, or for named keys the name the library's own String() prints (a
// round trip: MatchString must understand what String writes).  "" = the key
// has no name in the binding syntax.
func keyName(key rune) string {
	if key > unicode.MaxRune || key == 13 || key == 9 || key == 27 || key == 127 || key == 32 {
		return vaxis.Key{Keycode: key}.String()
	}
	return string(key)
}

// kittyChord encodes the chord (key, mods) the way kitty reports it with the
// disambiguate flag (alternate keys and text when shift produces another code).
func kittyChord(key rune, mods int) (Enc, bool) {
	for i, s := range keyspec.Specials {
		if s.Key == key {
			switch {
			case s.Kitty != 0:
				return Enc{K: "kitty", Ky: &keyspec.Kitty{Code: s.Kitty, Mods: mods}}, true
			case s.Letter != 0 && s.Letter != 'R':
				return Enc{K: "csil", S: i, M: mods}, true
			case len(s.Tilde) > 0:
				return Enc{K: "csit", S: i, N: s.Tilde[0], M: mods}, true
			}
			return Enc{}, false
		}
	}
	k := keyspec.Kitty{Code: int(key), Mods: mods}
	if mods&1 != 0 && unicode.IsLower(key) {
		k.Shifted = int(unicode.ToUpper(key))
	}
	return Enc{K: "kitty", Ky: &k}, true
}

func TestSelfMatch(t *testing.T) {
	if harness.ReplayPath() != "" {
		t.Skip()
	}
	const sub = "selfmatch"
	idx := 0
	fails := 0
	for _, key := range bindingKeys {
		if unicode.IsUpper(key) || key == '+' {
			continue // a chord is named by its unshifted key; '+' cannot be written in the binding syntax
		}
		for mods := 0; mods < 256; mods++ {
			idx++
			if !harness.Mine(idx) || fails > 3 {
				continue
			}
			e, ok := kittyChord(key, mods)
			if !ok {
				continue
			}
			_, w := build(e)
			k := keyOf(w)
			c := Chord{Key: int(key), Mods: mods, Enc: "kitty"}
			harness.R.Eval(sub)
			if mods != 0 {
				harness.R.Nontrivial(sub, c)
			}
			if idx%5000 == 1 {
				harness.R.Sample(sub, c)
			}
			if !k.Matches(key, vaxis.ModifierMask(mods)) {
				fails++
				harness.Fail(t, sub, fmt.Sprintf("chord %s pressed (decoded %v) does not match its own binding (%q,%08b)", bindingString(key, vaxis.ModifierMask(mods), 0), w, key, mods), c)
				continue
			}
			if keyName(key) == "" {
				harness.R.Excluded(sub, "key has no name in the binding-string syntax")
				continue
			}
			for variant := 0; variant < 3; variant++ {
				bs := bindingString(key, vaxis.ModifierMask(mods), variant)
				if !k.MatchString(bs) {
					fails++
					harness.Fail(t, sub, fmt.Sprintf("chord pressed (decoded %v) does not match its own binding string %q", w, bs), c)
					break
				}
			}
		}
	}
	if fails == 0 {
		harness.R.Exhaustive(sub)
	}
}

type StrCase struct {
	E       Enc `json:"enc"`
	Key     int `json:"key"`
	Mods    int `json:"mods"`
	Variant int `json:"variant"`
}

func checkStr(c StrCase) string {
	_, w := build(c.E)
	k := keyOf(w)
	key := rune(c.Key)
	mods := vaxis.ModifierMask(c.Mods)
	if keyName(key) == "" {
		return ""
	}
	bs := bindingString(key, mods, c.Variant)
	if got, want := k.MatchString(bs), k.Matches(key, mods); got != want {
		return fmt.Sprintf("%v.MatchString(%q) = %v but Matches(%q,%08b) = %v", w, bs, got, key, int(mods), want)
	}
	return ""
}

func TestMatchStringAgrees(t *testing.T) {
	const sub = "matchstring"
	n := harness.PerShard(harness.Scale(3_000_000, 100_000_000))
	harness.Check(t, sub, n, func(rt *rapid.T) StrCase {
		e := genEnc(rt)
		_, w := build(e)
		var key rune
		switch rapid.IntRange(0, 3).Draw(rt, "which") {
		case 0:
			key = w.Keycode
		case 1:
			key = unicode.ToUpper(w.Keycode)
		default:
			key = rapid.SampledFrom(bindingKeys).Draw(rt, "bkey")
		}
		if key == '+' || key <= 0 {
			key = 'a'
		}
		mods := int(w.Modifiers)
		if rapid.Bool().Draw(rt, "flip") {
			mods ^= 1 << uint(rapid.IntRange(0, 7).Draw(rt, "bit"))
		}
		c := StrCase{E: e, Key: int(key), Mods: mods, Variant: rapid.IntRange(0, 2).Draw(rt, "variant")}
		if mods != 0 {
			harness.R.Nontrivial(sub, c)
		}
		harness.R.Sample(sub, c)
		return c
	}, checkStr)
}

// ---------------------------------------------------------------------------
// (g) cross-protocol agreement on the unambiguous set

type Cross struct {
	Legacy Enc    `json:"legacy"`
	Kitty  Enc    `json:"kitty"`
	Name   string `json:"name"`
}

func crossSet() []Cross {
	var out []Cross
	add := func(name string, l Enc, k keyspec.Kitty) {
		kk := k
		out = append(out, Cross{Legacy: l, Kitty: Enc{K: "kitty", Ky: &kk}, Name: name})
	}
	// Ctrl + letter (except h i m [ which are Backspace, Tab, Enter, Escape)
	for c := 'a'; c <= 'z'; c++ {
		if c == 'h' || c == 'i' || c == 'm' {
			continue
		}
		add("Ctrl+"+string(c), Enc{K: "c0", B: int(c - 0x60)}, keyspec.Kitty{Code: int(c), Mods: 4})
	}
	// Alt + lower-case letter / digit / punctuation
	for c := 0x30; c < 0x7f; c++ {
		if !keyspec.AltPrefixable(byte(c)) || unicode.IsUpper(rune(c)) {
			continue
		}
		add("Alt+"+string(rune(c)), Enc{K: "alt", B: c}, keyspec.Kitty{Code: c, Mods: 2})
	}
	// bare Enter, Tab, Backspace, Escape; Shift+Tab
	add("Enter", Enc{K: "c0", B: 0x0d}, keyspec.Kitty{Code: 13, Mods: -1})
	add("Tab", Enc{K: "c0", B: 0x09}, keyspec.Kitty{Code: 9, Mods: -1})
	add("BackSpace", Enc{K: "text", G: "\x7f"}, keyspec.Kitty{Code: 127, Mods: -1})
	add("Escape", Enc{K: "c0", B: 0x1b}, keyspec.Kitty{Code: 27, Mods: -1})
	add("Shift+Tab", Enc{K: "stab"}, keyspec.Kitty{Code: 9, Mods: 1})
	// unmodified lower-case letters, digits, punctuation: legacy text vs kitty report (with and without text)
	for c := 0x21; c < 0x7f; c++ {
		if unicode.IsUpper(rune(c)) {
			continue
		}
		add(string(rune(c)), Enc{K: "text", G: string(rune(c))}, keyspec.Kitty{Code: c, Mods: -1, Text: []int{c}})
	}
	// special keys x subsets of Shift/Alt/Ctrl: SS3 (unmodified) vs CSI form, and
	// the ~ form vs the letter form where both exist
	for i, s := range keyspec.Specials {
		if s.SS3 != 0 && s.Letter != 'R' {
			out = append(out, Cross{Legacy: Enc{K: "ss3", S: i}, Kitty: Enc{K: "csil", S: i, M: 0}, Name: s.Name})
		}
		if s.Letter != 0 && s.Letter != 'R' && len(s.Tilde) > 0 {
			for m := 0; m < 8; m++ {
				out = append(out, Cross{Legacy: Enc{K: "csit", S: i, N: s.Tilde[0], M: m}, Kitty: Enc{K: "csil", S: i, M: m}, Name: s.Name})
			}
		}
		if s.Kitty != 0 && len(s.Tilde) > 0 {
			for m := 0; m < 8; m++ {
				out = append(out, Cross{Legacy: Enc{K: "csit", S: i, N: s.Tilde[0], M: m}, Kitty: Enc{K: "kitty", Ky: &keyspec.Kitty{Code: s.Kitty, Mods: m}}, Name: s.Name})
			}
		}
	}
	return out
}

func checkCross(c Cross) string {
	_, lw := build(c.Legacy)
	_, kw := build(c.Kitty)
	lk, kk := keyOf(lw), keyOf(kw)
	if lk.String() != kk.String() {
		return fmt.Sprintf("chord %s: String() is %q from the legacy encoding and %q from the kitty encoding", c.Name, lk.String(), kk.String())
	}
	for _, key := range bindingKeys {
		for mods := 0; mods < 256; mods++ {
			a, b := lk.Matches(key, vaxis.ModifierMask(mods)), kk.Matches(key, vaxis.ModifierMask(mods))
			if a != b {
				return fmt.Sprintf("chord %s: binding (%q,%08b) matches the legacy-encoded event: %v, the kitty-encoded event: %v", c.Name, key, mods, a, b)
			}
		}
	}
	return ""
}

func TestCrossProtocol(t *testing.T) {
	if harness.ReplayPath() != "" {
		t.Skip()
	}
	const sub = "crossprotocol"
	fails := 0
	for i, c := range crossSet() {
		if !harness.Mine(i) || fails > 3 {
			continue
		}
		harness.R.Eval(sub)
		harness.R.EvalN(sub+"-bindings", int64(len(bindingKeys)*256))
		harness.R.Nontrivial(sub, c)
		if i%40 == 0 {
			harness.R.Sample(sub, c)
		}
		if msg := checkCross(c); msg != "" {
			fails++
			harness.Fail(t, sub, msg, c)
		}
	}
	if fails == 0 {
		harness.R.Exhaustive(sub)
	}
}

func TestReplay(t *testing.T) {
	harness.ReplayAll(t, map[string]harness.Runner{
		"decode":        harness.Decode(harness.Confirm(runBatchOnce, 1)),
		"matching":      harness.Decode(checkPair),
		"selfmatch":     harness.Decode(func(c Chord) string { return "" }),
		"matchstring":   harness.Decode(checkStr),
		"crossprotocol": harness.Decode(checkCross),
	})
}
