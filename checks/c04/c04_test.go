package c04

import (
	"bytes"
	"encoding/json"
	"fmt"
	"os"
	"os/exec"
	"path/filepath"
	"runtime"
	"strings"
	"syscall"
	"testing"
	"time"

	vaxis "git.sr.ht/~rockorager/vaxis"
	vlog "git.sr.ht/~rockorager/vaxis/log"
	"pgregory.net/rapid"

	"verif/internal/faketty"
	"verif/internal/gen"
	"verif/internal/harness"
	"verif/internal/refterm"
	"verif/internal/vxdrive"
)

func TestMain(m *testing.M) {
	if os.Getenv("VERIF_C04_CHILD") != "" {
		childMain()
		return
	}
	harness.Main(m, "C04")
}

type Action struct {
	Kind  string `json:"k"` // frame shape appid suspend resume
	Col   int    `json:"c,omitempty"`
	Row   int    `json:"r,omitempty"`
	Shape int    `json:"shape,omitempty"` // cursor shape; -1 hide
	Text  string `json:"text,omitempty"`  // pointer shape / app id / cell text
}

type Case struct {
	Cols    int          `json:"cols"`
	Rows    int          `json:"rows"`
	Caps    refterm.Caps `json:"caps"`
	Opts    vxdrive.Opts `json:"opts"`
	Actions []Action     `json:"actions"`
	// Exit: close | close2 | suspend | suspend-close  (in process)
	//       sigterm | sigint | sigquit | sigabrt | panic (child process)
	Exit     string `json:"exit"`
	InFlight string `json:"inflight,omitempty"` // user input queued just before the trigger
}

func isChildExit(e string) bool { return strings.HasPrefix(e, "sig") || e == "panic" }

// stacks returns all goroutine stacks.
func stacks() string {
	buf := make([]byte, 1<<20)
	n := runtime.Stack(buf, true)
	return string(buf[:n])
}

// within runs f with a watchdog.  On expiry it classifies the hang from the
// goroutine dump: certain=true only when the shutdown is parked in
// Parser.WaitClose and no parser goroutine exists any more (nobody can ever
// wake it), or it is the input goroutine itself that waits there.
func within(d time.Duration, f func()) (ok bool, certain bool, why string) {
	done := make(chan struct{})
	go func() { f(); close(done) }()
	select {
	case <-done:
		return true, false, ""
	case <-time.After(d):
	}
	// take two samples to be sure nothing moves
	s1 := stacks()
	time.Sleep(200 * time.Millisecond)
	select {
	case <-done:
		return true, false, ""
	default:
	}
	s2 := stacks()
	return false, hangIsStructural(s1) && hangIsStructural(s2), hangSummary(s2)
}

func hangIsStructural(dump string) bool {
	waiting := false
	parserAlive := false
	inputWaits := false
	for _, g := range strings.Split(dump, "\n\n") {
		if strings.Contains(g, "ansi.(*Parser).WaitClose") {
			waiting = true
			if strings.Contains(g, "(*Vaxis).openTty.func1") {
				inputWaits = true
			}
		}
		if strings.Contains(g, "ansi.(*Parser).run(") {
			parserAlive = true
		}
	}
	return waiting && (!parserAlive || inputWaits)
}

func hangSummary(dump string) string {
	for _, g := range strings.Split(dump, "\n\n") {
		if strings.Contains(g, "ansi.(*Parser).WaitClose") {
			lines := strings.Split(g, "\n")
			var fn []string
			for _, l := range lines {
				if strings.HasPrefix(l, "git.sr.ht") || strings.HasPrefix(l, "verif/") {
					fn = append(fn, strings.SplitN(l, "(", 2)[0])
				}
			}
			return "parked in " + strings.Join(fn, " <- ")
		}
	}
	return "no goroutine in WaitClose"
}

func doAction(s *vxdrive.Session, a Action, suspended *bool) string {
	vx := s.Vx
	switch a.Kind {
	case "frame":
		if *suspended {
			return ""
		}
		win := vx.Window()
		win.SetCell(a.Col, a.Row, vaxis.Cell{Character: vaxis.Character{Grapheme: a.Text}, Style: vaxis.Style{Attribute: vaxis.AttrBold, Foreground: vaxis.IndexColor(3), Hyperlink: "https://x.example/"}})
		if a.Shape < 0 {
			vx.HideCursor()
		} else {
			vx.ShowCursor(a.Col, a.Row, vaxis.CursorStyle(a.Shape))
		}
		vx.Render()
	case "shape":
		if *suspended {
			return ""
		}
		vx.SetMouseShape(vaxis.MouseShape(a.Text))
		vx.Render()
	case "appid":
		if *suspended || !vx.CanSetAppID() {
			return ""
		}
		vx.SetAppID(a.Text)
	case "suspend":
		if *suspended {
			return ""
		}
		ok, certain, why := within(5*time.Second, func() { _ = vx.Suspend() })
		if !ok {
			if certain {
				return "Suspend never returns: " + why
			}
			harness.R.Label("run", "suspend-slow-inconclusive")
			return "-"
		}
		*suspended = true
	case "resume":
		if !*suspended {
			return ""
		}
		s.TTY.Reopen()
		ok, certain, why := within(5*time.Second, func() { _ = vx.Resume() })
		if !ok {
			if certain {
				return "Resume never returns: " + why
			}
			return "-"
		}
		*suspended = false
	}
	return ""
}

// run executes an in-process case.
var run = harness.Confirm(runOnce, 2)

func runOnce(c Case) string {
	if isChildExit(c.Exit) {
		return runChildCase(c)
	}
	tty := faketty.New(c.Cols, c.Rows, c.Caps)
	before := tty.Term.Projection()
	s, err := vxdrive.StartOn(tty, c.Opts)
	if err != nil {
		return "vaxis.New failed: " + err.Error()
	}
	if _, ok := s.Sync(10 * time.Second); !ok {
		return "input loop did not deliver a focus report after start-up"
	}
	s.Drain()
	afterNew := tty.Term.Projection()
	suspended := false
	for i, a := range c.Actions {
		msg := doAction(s, a, &suspended)
		if msg == "-" {
			return "" // inconclusive (slow machine)
		}
		if msg != "" {
			return fmt.Sprintf("action %d (%s): %s", i, a.Kind, msg)
		}
		switch a.Kind {
		case "suspend":
			if suspended {
				if d := tty.Term.Projection().Diff(before); d != "" {
					return fmt.Sprintf("after Suspend (action %d) the terminal is not back at its prior state: %s", i, d)
				}
			}
		case "resume":
			if !suspended {
				// let the second round of mode replies settle
				if _, ok := s.Sync(10 * time.Second); !ok {
					return fmt.Sprintf("after Resume (action %d) the input loop delivers nothing", i)
				}
				got := tty.Term.Projection()
				want := afterNew
				// what the application itself changed since New persists
				want.Pointer, want.AppID = got.Pointer, got.AppID
				want.CursorVisible, want.CursorShape = got.CursorVisible, got.CursorShape
				if d := got.Diff(want); d != "" {
					return fmt.Sprintf("Resume (action %d) did not re-establish the modes of start-up: %s", i, d)
				}
			}
		}
		s.Drain()
	}
	exit := func(name string, f func()) string {
		ok, certain, why := within(5*time.Second, f)
		if !ok {
			if certain {
				return name + " never returns: " + why
			}
			harness.R.Label("run", "exit-slow-inconclusive")
			return "-"
		}
		return ""
	}
	var msg string
	switch c.Exit {
	case "close":
		msg = exit("Close", s.Vx.Close)
	case "close2":
		msg = exit("Close", s.Vx.Close)
		if msg == "" {
			mid := tty.Term.Projection()
			tty.Term.Lock()
			n0 := tty.Term.Bytes
			tty.Term.Unlock()
			msg = exit("second Close", s.Vx.Close)
			if msg == "" {
				if d := tty.Term.Projection().Diff(mid); d != "" {
					return "second Close changed the terminal: " + d
				}
				_ = n0
			}
		}
	case "suspend":
		if !suspended {
			msg = exit("Suspend", func() { _ = s.Vx.Suspend() })
		}
	case "suspend-close":
		if !suspended {
			msg = exit("Suspend", func() { _ = s.Vx.Suspend() })
		}
		if msg == "" {
			msg = exit("Close after Suspend", s.Vx.Close)
		}
	}
	if msg == "-" {
		return ""
	}
	if msg != "" {
		return msg
	}
	if d := tty.Term.Projection().Diff(before); d != "" {
		return fmt.Sprintf("after %s the terminal is not back at its prior state: %s", c.Exit, d)
	}
	return ""
}

// ---------------------------------------------------------------------------
// child process: signal and panic paths

type logTTY struct {
	*faketty.TTY
	f *os.File
}

func (l *logTTY) Write(p []byte) (int, error) {
	_, _ = l.f.Write(p)
	return l.TTY.Write(p)
}

type panicWriter struct{ armed bool }

func (w *panicWriter) Write(p []byte) (int, error) {
	if w.armed && bytes.Contains(p, []byte("verif-panic")) {
		w.armed = false
		panic("verif: injected panic inside the input goroutine")
	}
	return len(p), nil
}

func childMain() {
	var c Case
	b, err := os.ReadFile(os.Getenv("VERIF_C04_CHILD"))
	if err == nil {
		err = json.Unmarshal(b, &c)
	}
	if err != nil {
		fmt.Fprintln(os.Stderr, "child: bad case:", err)
		os.Exit(4)
	}
	f, err := os.OpenFile(os.Getenv("VERIF_C04_LOG"), os.O_CREATE|os.O_WRONLY|os.O_APPEND|os.O_TRUNC, 0o644)
	if err != nil {
		os.Exit(4)
	}
	base := faketty.New(c.Cols, c.Rows, c.Caps)
	tty := &logTTY{TTY: base, f: f}
	pw := &panicWriter{}
	if c.Exit == "panic" {
		vlog.SetLevel(vlog.LevelTrace)
		vlog.SetOutput(pw)
	}
	vx, err := vaxis.New(vaxis.Options{WithConsole: tty, DisableKittyKeyboard: c.Opts.DisableKitty, DisableMouse: c.Opts.DisableMouse})
	if err != nil {
		fmt.Fprintln(os.Stderr, "child: New:", err)
		os.Exit(4)
	}
	s := &vxdrive.Session{TTY: base, Term: base.Term, Vx: vx}
	s.Sync(10 * time.Second)
	s.Drain()
	suspended := false
	for _, a := range c.Actions {
		doAction(s, a, &suspended)
		if a.Kind == "resume" && !suspended {
			s.Sync(10 * time.Second)
		}
		s.Drain()
	}
	if suspended {
		// a suspended application has already restored the terminal and
		// removed its signal handlers; the crash paths need it running
		base.Reopen()
		_ = vx.Resume()
		s.Sync(10 * time.Second)
		s.Drain()
	}
	// the trigger, with user input in flight
	if c.InFlight != "" {
		base.InjectString(c.InFlight)
	}
	switch c.Exit {
	case "panic":
		pw.armed = true
		base.InjectString("\x1b]777;verif-panic\x07")
	case "sigterm":
		_ = syscall.Kill(os.Getpid(), syscall.SIGTERM)
	case "sigint":
		_ = syscall.Kill(os.Getpid(), syscall.SIGINT)
	case "sigquit":
		_ = syscall.Kill(os.Getpid(), syscall.SIGQUIT)
	case "sigabrt":
		_ = syscall.Kill(os.Getpid(), syscall.SIGABRT)
	}
	// an application's main loop: leave on QuitEvent
	deadline := time.After(4 * time.Second)
	for {
		select {
		case ev := <-vx.Events():
			if _, ok := ev.(vaxis.QuitEvent); ok {
				// Close runs in the input goroutine (a second Close from
				// here returns at once).  Wait until that Close has
				// finished: closing the console is its last step.
				vx.Close()
				for i := 0; i < 4000; i++ {
					if base.Closes() > 0 {
						os.Exit(0)
					}
					time.Sleep(time.Millisecond)
				}
				fmt.Fprintln(os.Stderr, "CHILD-HANG")
				fmt.Fprintln(os.Stderr, stacks())
				os.Exit(3)
			}
		case <-deadline:
			fmt.Fprintln(os.Stderr, "CHILD-HANG")
			fmt.Fprintln(os.Stderr, stacks())
			os.Exit(3)
		}
	}
}

func runChildCase(c Case) string {
	dir := harness.WorkDir()
	sh, _ := harness.Shard()
	casePath := filepath.Join(dir, fmt.Sprintf("child-case-%d.json", sh))
	logPath := filepath.Join(dir, fmt.Sprintf("child-log-%d.bin", sh))
	b, _ := json.Marshal(c)
	if err := os.WriteFile(casePath, b, 0o644); err != nil {
		return ""
	}
	_ = os.Remove(logPath)
	cmd := exec.Command(os.Args[0], "-test.run", "^$")
	cmd.Env = append(os.Environ(), "VERIF_C04_CHILD="+casePath, "VERIF_C04_LOG="+logPath)
	var stderr bytes.Buffer
	cmd.Stderr = &stderr
	cmd.Stdout = &stderr
	done := make(chan error, 1)
	if err := cmd.Start(); err != nil {
		return ""
	}
	go func() { done <- cmd.Wait() }()
	var werr error
	select {
	case werr = <-done:
	case <-time.After(20 * time.Second):
		_ = cmd.Process.Kill()
		<-done
		harness.R.Label("run", "child-timeout-inconclusive")
		return ""
	}
	code := 0
	killedBy := ""
	if ee, ok := werr.(*exec.ExitError); ok {
		code = ee.ExitCode()
		if ws, ok := ee.Sys().(syscall.WaitStatus); ok && ws.Signaled() {
			killedBy = ws.Signal().String()
		}
	}
	out := stderr.String()
	logb, _ := os.ReadFile(logPath)
	term := refterm.New(c.Cols, c.Rows, c.Caps)
	before := term.Projection()
	_, _ = term.Write(logb)
	after := term.Projection()
	switch {
	case code == 4:
		return "" // harness problem in the child
	case code == 3:
		if hangIsStructural(out) {
			d := after.Diff(before)
			return fmt.Sprintf("shutdown by %s never completes (%s); terminal left with: %s", c.Exit, hangSummary(out), d)
		}
		harness.R.Label("run", "child-hang-inconclusive")
		return ""
	case strings.HasPrefix(c.Exit, "sig") && (killedBy != "" || strings.Contains(out, "SIGQUIT: quit") || strings.Contains(out, "SIGABRT: abort")):
		// the termination signal was not caught: nothing was restored
		return fmt.Sprintf("%s killed the process (no handler installed at that point of the session); terminal left with: %s", c.Exit, after.Diff(before))
	case c.Exit == "panic":
		if !strings.Contains(out, "verif: injected panic") {
			harness.R.Label("run", "child-panic-not-triggered")
			return ""
		}
	case code != 0:
		if strings.Contains(out, "panic:") || strings.Contains(out, "fatal error:") {
			return fmt.Sprintf("process crashed during shutdown by %s: %s", c.Exit, firstLine(out, "panic:", "fatal error:"))
		}
		return ""
	}
	if d := after.Diff(before); d != "" {
		return fmt.Sprintf("after shutdown by %s the terminal is not back at its prior state: %s", c.Exit, d)
	}
	return ""
}

func firstLine(s string, prefixes ...string) string {
	for _, l := range strings.Split(s, "\n") {
		for _, p := range prefixes {
			if strings.HasPrefix(l, p) {
				return l
			}
		}
	}
	return ""
}

// ---------------------------------------------------------------------------
// generators

var pointerShapes = []string{"default", "text", "pointer", "help", "wait", "cell"}

func genActions(rt *rapid.T, cols, rows, max int) []Action {
	n := rapid.IntRange(0, max).Draw(rt, "nactions")
	var out []Action
	for i := 0; i < n; i++ {
		switch rapid.IntRange(0, 9).Draw(rt, "akind") {
		case 0, 1, 2, 3:
			out = append(out, Action{Kind: "frame", Col: rapid.IntRange(0, cols-1).Draw(rt, "col"), Row: rapid.IntRange(0, rows-1).Draw(rt, "row"),
				Shape: rapid.IntRange(-1, 6).Draw(rt, "shape"), Text: rapid.SampledFrom([]string{"a", "宽", " "}).Draw(rt, "text")})
		case 4:
			out = append(out, Action{Kind: "shape", Text: rapid.SampledFrom(pointerShapes).Draw(rt, "pshape")})
		case 5:
			out = append(out, Action{Kind: "appid", Text: rapid.SampledFrom([]string{"vaxis-app", "x"}).Draw(rt, "appid")})
		case 6, 7:
			out = append(out, Action{Kind: "suspend"})
		default:
			out = append(out, Action{Kind: "resume"})
		}
	}
	return out
}

func genCase(rt *rapid.T, exits []string) Case {
	c := Case{Cols: rapid.IntRange(2, 10).Draw(rt, "cols"), Rows: rapid.IntRange(1, 4).Draw(rt, "rows")}
	c.Caps = gen.Caps(rt)
	c.Opts = vxdrive.Opts{DisableKitty: rapid.Bool().Draw(rt, "nokitty"), DisableMouse: rapid.Bool().Draw(rt, "nomouse")}
	c.Actions = genActions(rt, c.Cols, c.Rows, 8)
	c.Exit = rapid.SampledFrom(exits).Draw(rt, "exit")
	if isChildExit(c.Exit) {
		c.InFlight = rapid.SampledFrom([]string{"", "", "a", "ab", "abc", "abcdefgh", "\x1b[A\x1b[B\x1b[C\x1b[D", "\x1b[<0;1;1M\x1b[<0;1;1m\x1b[I"}).Draw(rt, "inflight")
	}
	return c
}

func label(sub string, c Case) {
	work := 0
	for _, a := range c.Actions {
		harness.R.Label(sub, "action:"+a.Kind)
		work++
	}
	harness.R.Label(sub, "exit:"+c.Exit)
	if c.Caps.Mask() != 0 && work > 0 {
		harness.R.Nontrivial(sub, c)
	}
	harness.R.Sample(sub, c)
}

func TestSessions(t *testing.T) {
	const sub = "sessions"
	n := harness.PerShard(harness.Scale(20_000, 1_000_000))
	harness.Check(t, sub, n, func(rt *rapid.T) Case {
		c := genCase(rt, []string{"close", "close", "close2", "suspend", "suspend-close"})
		label(sub, c)
		return c
	}, run)
}

func TestCrashPaths(t *testing.T) {
	const sub = "crashpaths"
	n := harness.PerShard(harness.Scale(4_000, 100_000))
	harness.Check(t, sub, n, func(rt *rapid.T) Case {
		c := genCase(rt, []string{"sigterm", "sigint", "sigquit", "sigabrt", "panic", "panic"})
		label(sub, c)
		return c
	}, run)
}

// every capability subset through one canonical session (thorough: all 2^19)
func TestAllCapabilitySubsets(t *testing.T) {
	if harness.ReplayPath() != "" {
		t.Skip()
	}
	const sub = "capsubsets"
	full := uint32(1<<refterm.NumCaps - 1)
	var masks []uint32
	if harness.Thorough() {
		for m := uint32(0); m <= full; m++ {
			masks = append(masks, m)
		}
	} else {
		masks = append(masks, 0, full)
		for i := 0; i < refterm.NumCaps; i++ {
			masks = append(masks, 1<<uint(i), full&^(1<<uint(i)))
		}
	}
	fails := 0
	for idx, m := range masks {
		if !harness.Mine(idx) || fails > 2 {
			continue
		}
		caps := refterm.FromMask(m)
		caps.UserCursorStyle = idx % 7
		caps.KittyInitial = []int{0, 1, 3}[idx%3]
		if caps.OSC176 {
			caps.AppID = "orig"
		}
		c := Case{Cols: 6, Rows: 2, Caps: caps, Opts: vxdrive.Opts{DisableKitty: idx%4 == 0, DisableMouse: idx%3 == 0},
			Actions: []Action{{Kind: "frame", Col: 1, Row: 1, Shape: 3, Text: "a"}, {Kind: "shape", Text: "pointer"}, {Kind: "appid", Text: "mine"},
				{Kind: "suspend"}, {Kind: "resume"}, {Kind: "frame", Col: 0, Row: 0, Shape: 5, Text: "宽"}},
			Exit: []string{"close", "close2", "suspend"}[idx%3]}
		harness.R.Eval(sub)
		label(sub, c)
		if msg := run(c); msg != "" {
			fails++
			harness.Fail(t, sub, msg, c)
		}
	}
	if fails == 0 && harness.Thorough() {
		harness.R.Exhaustive(sub)
	}
}

func TestReplay(t *testing.T) {
	r := harness.Decode(run)
	harness.ReplayAll(t, map[string]harness.Runner{"sessions": r, "crashpaths": r, "capsubsets": r})
}
