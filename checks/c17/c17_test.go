package c17

import (
	"fmt"
	"strings"
	"sync"
	"testing"
	"time"

	vaxis "git.sr.ht/~rockorager/vaxis"
	"git.sr.ht/~rockorager/vaxis/vxfw"
	"git.sr.ht/~rockorager/vaxis/vxfw/textfield"
	"git.sr.ht/~rockorager/vaxis/widgets/textinput"
	"pgregory.net/rapid"

	"verif/internal/harness"
	"verif/internal/refterm"
	"verif/internal/vxdrive"
)

func TestMain(m *testing.M) { harness.Main(m, "C17") }

var gWidth = map[string]int{"a": 1, "b": 1, "Z": 1, "1": 1, " ": 1, "-": 1, ".": 1, "宽": 2, "é": 1, "👩‍🚀": 2, "🇺🇸": 2,
	// lone regional indicators (typed one at a time; the library's width function, like terminals, gives a lone one two
	// columns) and the flags two of them make once they are neighbours
	"🇩": 2, "🇪": 2, "🇩🇪": 2, "🇪🇩": 2, "🇩🇩": 2, "🇪🇪": 2}
var alphabet = []string{"a", "b", "Z", "1", " ", "-", ".", "宽", "é", "👩‍🚀", "🇺🇸"}

// Op is one editing operation.
type Op struct {
	K string   `json:"k"`
	G []string `json:"g,omitempty"` // inserted clusters
	N int      `json:"n,omitempty"` // CursorTo index / split point
}

type Case struct {
	Widget string   `json:"widget"` // textfield | textinput
	Start  []string `json:"start"`
	Ops    []Op     `json:"ops"`
	Widths []int    `json:"widths"`
	Prompt string   `json:"prompt,omitempty"`
}

// ---- ideal editor

type ideal struct {
	t []string
	c int
	// loose: a deletion made its two neighbours one cluster and the cursor
	// was between them; an ideal editor may put it on either side, so the
	// cursor is not compared until an operation sets it absolutely
	loose bool
}

// afterDelete re-segments the text: the neighbours of a deleted cluster can
// form one cluster (two lone regional indicators make a flag).
func (e *ideal) afterDelete() {
	t2 := segment(strings.Join(e.t, ""))
	same := len(t2) == len(e.t)
	for i := 0; same && i < len(t2); i++ {
		same = t2[i] == e.t[i]
	}
	if !same {
		harness.R.Label("histories", "a deletion merged its neighbours into one cluster")
		off := len(strings.Join(e.t[:e.c], ""))
		e.t = t2
		pos, inside := 0, false
		e.c = len(e.t)
		for i, g := range e.t {
			if pos == off {
				e.c = i
				break
			}
			if pos < off && off < pos+len(g) {
				e.c, inside = i+1, true
				break
			}
			pos += len(g)
		}
		e.loose = inside
	}
}

func (e *ideal) insert(g []string) { e.insertRaw(strings.Join(g, "")) }

// segment splits a string into the clusters of the test alphabet: a combining
// mark, a variation selector or a joiner attaches to what precedes it, and
// what follows a joiner attaches too.
func segment(s string) []string {
	var out []string
	prevZWJ := false
	for _, r := range s {
		attach := r == 0x0301 || r == 0xFE0F || r == 0x200D || prevZWJ || (r >= 0x1F1E6 && r <= 0x1F1FF && len(out) > 0 && regionalOpen(out[len(out)-1]))
		if attach && len(out) > 0 {
			out[len(out)-1] += string(r)
		} else {
			out = append(out, string(r))
		}
		prevZWJ = r == 0x200D
	}
	return out
}

func regionalOpen(g string) bool {
	r := []rune(g)
	return len(r) == 1 && r[0] >= 0x1F1E6 && r[0] <= 0x1F1FF
}

// insertRaw inserts text which may merge with the cluster before the cursor
// (a combining mark typed after its base): the cursor ends up behind the
// cluster that holds the last inserted byte.
func (e *ideal) insertRaw(ins string) {
	before := strings.Join(e.t[:e.c], "")
	after := strings.Join(e.t[e.c:], "")
	off := len(before) + len(ins)
	n0 := len(e.t)
	e.t = segment(before + ins + after)
	if len(e.t) < n0+len(segment(ins)) {
		harness.R.Label("histories", "inserted text merged with a neighbouring cluster")
	}
	e.c = len(e.t)
	pos := 0
	for i, g := range e.t {
		pos += len(g)
		if pos >= off {
			e.c = i + 1
			break
		}
	}
}

// gw is the width of a cluster: that of its base.
func gw(g string) int {
	if w, ok := gWidth[g]; ok {
		return w
	}
	ri := strings.TrimRight(g, "\u0301") != ""
	for _, r := range strings.TrimRight(g, "\u0301") {
		if r < 0x1F1E6 || r > 0x1F1FF {
			ri = false
		}
	}
	if ri {
		// one or two regional indicators: two columns either way
		return 2
	}
	base := strings.TrimRight(g, "\u0301")
	if w, ok := gWidth[base]; ok {
		return w
	}
	if base == "" {
		return 0
	}
	return 1
}

func (e *ideal) clamp() {
	if e.c < 0 {
		e.c = 0
	}
	if e.c > len(e.t) {
		e.c = len(e.t)
	}
}
func (e *ideal) value() string { return strings.Join(e.t, "") }
func (e *ideal) widthBefore() int {
	w := 0
	for _, g := range e.t[:e.c] {
		w += gw(g)
	}
	return w
}
func (e *ideal) total() int {
	w := 0
	for _, g := range e.t {
		w += gw(g)
	}
	return w
}

func alnum(g string) bool {
	return len(g) == 1 && ((g[0] >= 'a' && g[0] <= 'z') || (g[0] >= 'A' && g[0] <= 'Z') || (g[0] >= '0' && g[0] <= '9'))
}

// asciiOnly: word motions are only compared on unambiguous word/non-word classes
func asciiOnly(t []string) bool {
	for _, g := range t {
		if len(g) != 1 {
			return false
		}
	}
	return true
}

func within(f func()) bool {
	done := make(chan struct{})
	go func() { f(); close(done) }()
	select {
	case <-done:
		return true
	case <-time.After(5 * time.Second):
		return false
	}
}

func key(code rune, mods vaxis.ModifierMask) vaxis.Key {
	return vaxis.Key{Keycode: code, Modifiers: mods}
}
func textKey(g string) vaxis.Key {
	r := []rune(g)[0]
	return vaxis.Key{Keycode: r, Text: g}
}

// ---------------------------------------------------------------------------
// TextField

func ctxW(w int) vxfw.DrawContext {
	return vxfw.DrawContext{Max: vxfw.Size{Width: uint16(w), Height: 1}, Characters: vaxis.Characters}
}

func runTextField(c Case) string {
	tf := textfield.New()
	changes, submits := 0, []string{}
	var lastChange string
	tf.OnChange = func(s string) (vxfw.Command, error) { changes++; lastChange = s; return nil, nil }
	tf.OnSubmit = func(s string) (vxfw.Command, error) { submits = append(submits, s); return nil, nil }
	e := &ideal{}
	if len(c.Start) > 0 {
		tf.InsertStringAtCursor(strings.Join(c.Start, ""))
		e.insert(c.Start)
	}
	check := func(i int, op Op) string {
		if tf.Value != e.value() {
			return fmt.Sprintf("after op %d %v the field holds %q, an ideal line editor holds %q", i, op, tf.Value, e.value())
		}
		// cursor index through Draw at a width that holds everything
		var s vxfw.Surface
		var err error
		if !within(func() { s, err = tf.Draw(ctxW(e.total() + 5)) }) {
			return fmt.Sprintf("after op %d %v Draw does not return", i, op)
		}
		if err != nil || s.Cursor == nil {
			return fmt.Sprintf("after op %d %v Draw gave no cursor", i, op)
		}
		if e.loose {
			return ""
		}
		if int(s.Cursor.Col) != e.widthBefore() {
			return fmt.Sprintf("after op %d %v (text %q) the cursor is drawn at column %d; an ideal editor has it before grapheme %d of %d = column %d", i, op, e.value(), s.Cursor.Col, e.c, len(e.t), e.widthBefore())
		}
		return ""
	}
	if msg := check(-1, Op{K: "start"}); msg != "" {
		return msg
	}
	for i, op := range c.Ops {
		preChanges, preSub := changes, len(submits)
		preVal := e.value()
		var ev vaxis.Event
		edit := false
		if e.loose {
			switch op.K {
			case "home", "ctrl-a", "end", "ctrl-e", "api-reset", "api-cursor", "enter", "release":
				// sets the cursor absolutely (or does not use it)
			default:
				harness.R.Label("histories", "history ended: cursor-relative operation while the cursor may be on either side of a merged cluster")
				return ""
			}
			if op.K != "release" {
				e.loose = false
			}
		}
		switch op.K {
		case "type-ri":
			ev = textKey(op.G[0])
			e.insertRaw(op.G[0])
			edit = true
		case "type":
			ev = textKey(strings.Join(op.G, ""))
			e.insert(op.G)
			edit = true
		case "type-mark":
			ev = vaxis.Key{Keycode: 0x0301, Text: "\u0301"}
			e.insertRaw("\u0301")
			edit = true
		case "home":
			ev = key(vaxis.KeyHome, 0)
			e.c = 0
		case "ctrl-a":
			ev = key('a', vaxis.ModCtrl)
			e.c = 0
		case "end":
			ev = key(vaxis.KeyEnd, 0)
			e.c = len(e.t)
		case "ctrl-e":
			ev = key('e', vaxis.ModCtrl)
			e.c = len(e.t)
		case "right":
			ev = key(vaxis.KeyRight, 0)
			e.c++
		case "left":
			ev = key(vaxis.KeyLeft, 0)
			e.c--
		case "delete":
			ev = key(vaxis.KeyDelete, 0)
			if e.c < len(e.t) {
				e.t = append(e.t[:e.c:e.c], e.t[e.c+1:]...)
				e.afterDelete()
			}
			edit = true
		case "backspace":
			ev = key(vaxis.KeyBackspace, 0)
			if e.c > 0 {
				e.t = append(e.t[:e.c-1:e.c-1], e.t[e.c:]...)
				e.c--
				e.afterDelete()
			}
			edit = true
		case "ctrl-k":
			ev = key('k', vaxis.ModCtrl)
			e.t = e.t[:e.c]
			edit = true
		case "enter":
			ev = key(vaxis.KeyEnter, 0)
		case "release":
			ev = vaxis.Key{Keycode: 'x', Text: "x", EventType: vaxis.EventRelease}
		case "api-insert":
			tf.InsertStringAtCursor(strings.Join(op.G, ""))
			e.insert(op.G)
		case "api-cursor":
			tf.CursorTo(uint(op.N))
			e.c = op.N
		case "api-del-right":
			tf.DeleteCharRightOfCursor()
			if e.c < len(e.t) {
				e.t = append(e.t[:e.c:e.c], e.t[e.c+1:]...)
				e.afterDelete()
			}
		case "api-del-left":
			tf.DeleteCharLeftOfCursor()
			if e.c > 0 {
				e.t = append(e.t[:e.c-1:e.c-1], e.t[e.c:]...)
				e.c--
				e.afterDelete()
			}
		case "api-del-eol":
			tf.DeleteCursorToEndOfLine()
			e.t = e.t[:e.c]
		case "api-reset":
			tf.Reset()
			e.t, e.c = nil, 0
		}
		e.clamp()
		if ev != nil {
			var herr error
			if !within(func() { _, herr = tf.HandleEvent(ev, vxfw.TargetPhase) }) {
				return fmt.Sprintf("op %d %v: HandleEvent does not return", i, op)
			}
			if herr != nil {
				return fmt.Sprintf("op %d %v: HandleEvent error %v", i, op, herr)
			}
		}
		if op.K == "enter" {
			if len(submits) != preSub+1 || submits[len(submits)-1] != preVal {
				return fmt.Sprintf("op %d Enter with value %q: OnSubmit calls %v (want exactly one more, with the value before the reset)", i, preVal, submits[preSub:])
			}
			e.t, e.c = nil, 0
		} else {
			if len(submits) != preSub {
				return fmt.Sprintf("op %d %v fired OnSubmit", i, op)
			}
			wantChange := edit && e.value() != preVal
			if wantChange && (changes != preChanges+1 || lastChange != e.value()) {
				return fmt.Sprintf("op %d %v changed the value from %q to %q but OnChange fired %d time(s) (last with %q)", i, op, preVal, e.value(), changes-preChanges, lastChange)
			}
			if !wantChange && changes != preChanges {
				return fmt.Sprintf("op %d %v left the value %q unchanged but OnChange fired", i, op, preVal)
			}
		}
		if msg := check(i, op); msg != "" {
			return msg
		}
		// draw at the small widths: must return, cursor column right while the text fits
		for _, w := range c.Widths {
			var s vxfw.Surface
			if !within(func() { s, _ = tf.Draw(ctxW(w)) }) {
				return fmt.Sprintf("after op %d %v Draw at width %d does not return", i, op, w)
			}
			if w > 0 && e.total() < w && s.Cursor != nil && !e.loose && int(s.Cursor.Col) != e.widthBefore() {
				return fmt.Sprintf("after op %d %v the text %q fits width %d but the cursor is drawn at column %d, want %d", i, op, e.value(), w, s.Cursor.Col, e.widthBefore())
			}
		}
	}
	return ""
}

// ---------------------------------------------------------------------------
// textinput.Model

var (
	hostOnce sync.Once
	host     *vxdrive.Session
)

func hostVaxis() *vxdrive.Session {
	hostOnce.Do(func() {
		s, err := vxdrive.Start(40, 3, refterm.Caps{Unicode2027: true}, vxdrive.Opts{DisableMouse: true})
		if err == nil {
			s.Sync(10 * time.Second)
			s.Drain()
			host = s
		}
	})
	return host
}

func runTextInput(c Case) string {
	m := textinput.New()
	m.SetPrompt(c.Prompt)
	e := &ideal{}
	if len(c.Start) > 0 {
		m.SetContent(strings.Join(c.Start, ""))
		e.t = append([]string{}, c.Start...)
		e.c = len(e.t)
	}
	promptW := len(c.Prompt)
	check := func(i int, op Op) string {
		if m.String() != e.value() {
			return fmt.Sprintf("after op %d %v the input holds %q, an ideal line editor holds %q", i, op, m.String(), e.value())
		}
		if m.CursorPosition() != e.c {
			return fmt.Sprintf("after op %d %v (text %q) the cursor is at grapheme %d, an ideal editor has it at %d", i, op, e.value(), m.CursorPosition(), e.c)
		}
		if n := len(m.Characters()); n != len(e.t) {
			return fmt.Sprintf("after op %d %v the input holds %d characters, the text %q has %d grapheme clusters", i, op, n, e.value(), len(e.t))
		}
		return ""
	}
	for i, op := range c.Ops {
		word := false
		var evs []vaxis.Event
		if (op.K == "word-fwd" || op.K == "word-back" || op.K == "ctrl-w") && !asciiOnly(e.t) {
			harness.R.Excluded("textinput", "word motion across non-ASCII graphemes")
			return ""
		}
		switch op.K {
		case "type":
			for _, g := range op.G {
				evs = append(evs, textKey(g))
				// one key at a time: each can merge with its neighbours
				e.insertRaw(g)
			}
		case "type-mark":
			evs = append(evs, vaxis.Key{Keycode: 0x0301, Text: "\u0301"})
			e.insertRaw("\u0301")
		case "type-shift":
			evs = append(evs, vaxis.Key{Keycode: 'z', ShiftedCode: 'Z', Modifiers: vaxis.ModShift, Text: "Z"})
			e.insert([]string{"Z"})
		case "paste":
			// the paste arrives as keys whose text may cut a grapheme in two
			s := strings.Join(op.G, "")
			r := []rune(s)
			cut := op.N
			if cut > len(r) {
				cut = len(r)
			}
			evs = append(evs, vaxis.PasteStartEvent{})
			if cut > 0 {
				evs = append(evs, vaxis.Key{Keycode: r[0], Text: string(r[:cut]), EventType: vaxis.EventPaste})
			}
			if cut < len(r) {
				evs = append(evs, vaxis.Key{Keycode: r[cut], Text: string(r[cut:]), EventType: vaxis.EventPaste})
			}
			evs = append(evs, vaxis.PasteEndEvent{})
			e.insert(op.G)
		case "home":
			evs = append(evs, key(vaxis.KeyHome, 0))
			e.c = 0
		case "ctrl-a":
			evs = append(evs, key('a', vaxis.ModCtrl))
			e.c = 0
		case "end":
			evs = append(evs, key(vaxis.KeyEnd, 0))
			e.c = len(e.t)
		case "ctrl-e":
			evs = append(evs, key('e', vaxis.ModCtrl))
			e.c = len(e.t)
		case "right":
			evs = append(evs, key(vaxis.KeyRight, 0))
			e.c++
		case "left":
			evs = append(evs, key(vaxis.KeyLeft, 0))
			e.c--
		case "delete":
			evs = append(evs, key(vaxis.KeyDelete, 0))
			if e.c < len(e.t) {
				e.t = append(e.t[:e.c:e.c], e.t[e.c+1:]...)
			}
		case "backspace":
			evs = append(evs, key(vaxis.KeyBackspace, 0))
			if e.c > 0 {
				e.t = append(e.t[:e.c-1:e.c-1], e.t[e.c:]...)
				e.c--
			}
		case "ctrl-k":
			evs = append(evs, key('k', vaxis.ModCtrl))
			e.t = e.t[:e.c]
		case "ctrl-u":
			evs = append(evs, key('u', vaxis.ModCtrl))
			e.t = append([]string{}, e.t[e.c:]...)
			e.c = 0
		case "word-fwd":
			word = true
			evs = append(evs, key('f', vaxis.ModAlt))
			for e.c < len(e.t) && !alnum(e.t[e.c]) {
				e.c++
			}
			for e.c < len(e.t) && alnum(e.t[e.c]) {
				e.c++
			}
		case "word-back":
			word = true
			evs = append(evs, key('b', vaxis.ModAlt))
			for e.c > 0 && !alnum(e.t[e.c-1]) {
				e.c--
			}
			for e.c > 0 && alnum(e.t[e.c-1]) {
				e.c--
			}
		case "ctrl-w":
			word = true
			evs = append(evs, key('w', vaxis.ModCtrl))
			o := e.c
			for e.c > 0 && !alnum(e.t[e.c-1]) {
				e.c--
			}
			for e.c > 0 && alnum(e.t[e.c-1]) {
				e.c--
			}
			e.t = append(e.t[:e.c:e.c], e.t[o:]...)
		case "release":
			evs = append(evs, vaxis.Key{Keycode: 'x', Text: "x", EventType: vaxis.EventRelease})
		case "ctrl-other":
			evs = append(evs, vaxis.Key{Keycode: 'q', Modifiers: vaxis.ModCtrl, Text: "q"})
		case "set":
			m.SetContent(strings.Join(op.G, ""))
			e.t = append([]string{}, op.G...)
			e.c = len(e.t)
		}
		e.clamp()
		if word && !asciiOnly(e.t) {
			harness.R.Excluded("textinput", "word motion across non-ASCII graphemes")
			return ""
		}
		p := ""
		if !within(func() {
			defer func() {
				if r := recover(); r != nil {
					p = fmt.Sprint(r)
				}
			}()
			for _, ev := range evs {
				m.Update(ev)
			}
		}) {
			return fmt.Sprintf("op %d %v: Update does not return", i, op)
		}
		if p != "" {
			return fmt.Sprintf("op %d %v: Update panicked: %s", i, op, p)
		}
		if msg := check(i, op); msg != "" {
			return msg
		}
		h := hostVaxis()
		if h == nil {
			continue
		}
		for _, w := range c.Widths {
			win := h.Vx.Window().New(0, 0, w, 1)
			h.Vx.Window().Clear()
			h.Vx.HideCursor()
			if !within(func() { m.Draw(win) }) {
				return fmt.Sprintf("after op %d %v Draw into a window %d columns wide does not return (prompt %q, text %q, cursor %d)", i, op, w, c.Prompt, e.value(), e.c)
			}
			if w > 0 && promptW+e.total()+4 < w {
				h.Vx.Render()
				h.Term.Lock()
				col, vis := h.Term.C.Col, h.Term.C.Visible
				h.Term.Unlock()
				want := promptW + e.widthBefore()
				if !vis || col != want {
					return fmt.Sprintf("after op %d %v prompt %q + text %q fit a window %d wide, but the cursor is drawn at column %d (visible %v), want %d", i, op, c.Prompt, e.value(), w, col, vis, want)
				}
			}
		}
	}
	return ""
}

func run(c Case) string {
	if c.Widget == "textfield" {
		return runTextField(c)
	}
	return runTextInput(c)
}

// ---------------------------------------------------------------------------

var fieldOps = []string{"type", "type", "type", "type-mark", "type-ri", "home", "ctrl-a", "end", "ctrl-e", "right", "left", "left", "delete", "backspace", "backspace", "ctrl-k", "enter", "release",
	"api-insert", "api-cursor", "api-del-right", "api-del-left", "api-del-eol", "api-reset"}
var inputOps = []string{"type", "type", "type", "type-mark", "type-shift", "paste", "paste", "home", "ctrl-a", "end", "ctrl-e", "right", "left", "left", "delete", "backspace", "backspace", "ctrl-k", "ctrl-u",
	"word-fwd", "word-back", "ctrl-w", "release", "ctrl-other", "set"}

func genG(rt *rapid.T, ascii bool) []string {
	n := rapid.IntRange(1, 3).Draw(rt, "ng")
	var out []string
	for i := 0; i < n; i++ {
		if ascii {
			out = append(out, rapid.SampledFrom([]string{"a", "b", "Z", "1", " ", "-", "."}).Draw(rt, "g"))
		} else {
			out = append(out, rapid.SampledFrom(alphabet).Draw(rt, "g"))
		}
	}
	return out
}

func genCase(rt *rapid.T) Case {
	c := Case{Widget: rapid.SampledFrom([]string{"textfield", "textinput"}).Draw(rt, "widget")}
	ascii := rapid.IntRange(0, 2).Draw(rt, "ascii") == 0
	if rapid.Bool().Draw(rt, "start") {
		c.Start = genG(rt, ascii)
	}
	names := fieldOps
	if c.Widget == "textinput" {
		names = inputOps
		c.Prompt = rapid.SampledFrom([]string{"", "> ", "$"}).Draw(rt, "prompt")
	}
	n := rapid.IntRange(1, harness.Scale(20, 40)).Draw(rt, "nops")
	for i := 0; i < n; i++ {
		op := Op{K: rapid.SampledFrom(names).Draw(rt, "op")}
		switch op.K {
		case "type", "api-insert", "set", "paste":
			op.G = genG(rt, ascii)
			if op.K == "type" && c.Widget == "textfield" {
				op.G = op.G[:1]
			}
			op.N = rapid.IntRange(0, 6).Draw(rt, "cut")
		case "api-cursor":
			op.N = rapid.IntRange(0, 12).Draw(rt, "idx")
		case "type-ri":
			op.G = []string{rapid.SampledFrom([]string{"🇩", "🇪"}).Draw(rt, "ri")}
		}
		c.Ops = append(c.Ops, op)
	}
	if c.Widget == "textfield" && rapid.IntRange(0, 5).Draw(rt, "ri-sandwich") == 1 {
		// two lone regional indicators around a cluster, the cluster deleted,
		// then the cursor sent to the end and back: the random tail follows
		mid := rapid.SampledFrom([]string{"a", "宽", "é"}).Draw(rt, "mid")
		del := [][]Op{{{K: "left"}, {K: "backspace"}}, {{K: "left"}, {K: "left"}, {K: "delete"}}, {{K: "left"}, {K: "api-del-left"}}}[rapid.IntRange(0, 2).Draw(rt, "how")]
		pre := []Op{{K: "api-reset"}, {K: "type-ri", G: []string{"🇩"}}, {K: "type", G: []string{mid}}, {K: "type-ri", G: []string{"🇪"}}}
		pre = append(pre, del...)
		pre = append(pre, Op{K: "end"}, Op{K: "left"}, Op{K: "type", G: []string{"b"}})
		c.Ops = append(pre, c.Ops...)
	}
	c.Widths = []int{0, 1, 2, 3, 4, 5, 6, 8, 12, 30}
	return c
}

func nontrivial(c Case) bool {
	multi := false
	for _, op := range c.Ops {
		for _, g := range op.G {
			if len([]rune(g)) > 1 {
				multi = true
			}
		}
		if multi && (strings.Contains(op.K, "del") || op.K == "backspace" || op.K == "delete" || op.K == "left" || op.K == "home" || op.K == "ctrl-k") {
			return true
		}
	}
	return false
}

func TestHistories(t *testing.T) {
	const sub = "histories"
	n := harness.PerShard(harness.Scale(30_000, 3_000_000))
	harness.Check(t, sub, n, func(rt *rapid.T) Case {
		c := genCase(rt)
		if nontrivial(c) {
			harness.R.Nontrivial(sub, c)
		}
		harness.R.Label(sub, "widget:"+c.Widget)
		harness.R.Sample(sub, c)
		return c
	}, run)
}

// all histories of <= 4 operations over a 4-symbol alphabet
func TestShortHistoriesExhaustive(t *testing.T) {
	if harness.ReplayPath() != "" {
		t.Skip()
	}
	const sub = "short-exhaustive"
	sym := []string{"a", "宽", "é", "👩‍🚀"}
	depth := harness.Scale(4, 5)
	fails := 0
	idx := 0
	for _, widget := range []string{"textfield", "textinput"} {
		var opsAlpha []Op
		for _, g := range sym {
			opsAlpha = append(opsAlpha, Op{K: "type", G: []string{g}})
		}
		names := []string{"home", "end", "left", "right", "delete", "backspace", "ctrl-k"}
		if widget == "textfield" {
			names = append(names, "enter", "api-del-left", "api-del-right", "api-del-eol")
			opsAlpha = append(opsAlpha, Op{K: "api-cursor", N: 1}, Op{K: "api-cursor", N: 9})
		} else {
			names = append(names, "ctrl-u")
			opsAlpha = append(opsAlpha, Op{K: "paste", G: []string{"é", "宽"}, N: 1}, Op{K: "paste", G: []string{"👩‍🚀"}, N: 2})
		}
		for _, k := range names {
			opsAlpha = append(opsAlpha, Op{K: k})
		}
		var rec func(prefix []Op)
		rec = func(prefix []Op) {
			if fails > 3 {
				return
			}
			if len(prefix) > 0 {
				idx++
				if harness.Mine(idx) {
					c := Case{Widget: widget, Ops: append([]Op{}, prefix...), Widths: []int{0, 1, 3, 5, 9}, Prompt: ""}
					harness.R.Eval(sub)
					if nontrivial(c) {
						harness.R.Nontrivial(sub, c)
					}
					if idx%20000 == 1 {
						harness.R.Sample(sub, c)
					}
					if msg := run(c); msg != "" {
						fails++
						harness.Fail(t, sub, msg, c)
					}
				}
			}
			if len(prefix) == depth {
				return
			}
			for _, o := range opsAlpha {
				rec(append(prefix, o))
			}
		}
		rec(nil)
	}
	if fails == 0 {
		harness.R.Exhaustive(sub)
	}
}

func TestReplay(t *testing.T) {
	r := harness.Decode(run)
	harness.ReplayAll(t, map[string]harness.Runner{"histories": r, "short-exhaustive": r})
}
