//go:build verif

package c13

import (
	"fmt"
	"strings"
	"testing"
	"time"
	"unicode"

	vaxis "git.sr.ht/~rockorager/vaxis"
	"pgregory.net/rapid"

	"verif/internal/harness"
	"verif/internal/keyspec"
	"verif/internal/refterm"
	"verif/internal/termdrive"
	"verif/internal/vxdrive"
)

func TestMain(m *testing.M) { harness.Main(m, "C13") }

const sentinel = 0xFFFFD

type KeyCase struct {
	Key     int    `json:"key"` // rune (vaxis key code)
	Mods    int    `json:"mods"`
	Text    string `json:"text,omitempty"`
	Shifted int    `json:"shifted,omitempty"`
	DECCKM  bool   `json:"decckm"`
	DECKPAM bool   `json:"deckpam"`
}

var specialKeys = []rune{vaxis.KeyUp, vaxis.KeyDown, vaxis.KeyLeft, vaxis.KeyRight, vaxis.KeyHome, vaxis.KeyEnd, vaxis.KeyInsert, vaxis.KeyDelete, vaxis.KeyPgUp, vaxis.KeyPgDown,
	vaxis.KeyF01, vaxis.KeyF02, vaxis.KeyF03, vaxis.KeyF04, vaxis.KeyF05, vaxis.KeyF06, vaxis.KeyF07, vaxis.KeyF08, vaxis.KeyF09, vaxis.KeyF10, vaxis.KeyF11, vaxis.KeyF12}

func isSpecial(k rune) bool {
	for _, s := range specialKeys {
		if s == k {
			return true
		}
	}
	return false
}

// expressible: the chord can be expressed in the xterm legacy encoding (Appendix G).
func expressible(c KeyCase) bool {
	k := rune(c.Key)
	mods := vaxis.ModifierMask(c.Mods)
	switch {
	case isSpecial(k):
		return true
	case k == vaxis.KeyTab && mods == vaxis.ModShift:
		return true
	case k == vaxis.KeyEnter || k == vaxis.KeyTab || k == vaxis.KeyEsc || k == vaxis.KeyBackspace:
		return mods == 0
	case k >= 0x20 && k < 0x7f:
		switch mods {
		case 0, vaxis.ModShift:
			return true
		case vaxis.ModAlt:
			// ESC + 0x20..0x2F starts an escape sequence with intermediates and
			// ESC + [ ] P _ X ^ O introduce control sequences/strings: the
			// ESC prefix cannot express Alt with those keys
			return !unicode.IsUpper(k) && keyspec.AltPrefixable(byte(k))
		case vaxis.ModCtrl:
			return k >= 'a' && k <= 'z' && k != 'h' && k != 'i' && k != 'm'
		case vaxis.ModShift | vaxis.ModAlt:
			// Alt+Shift+letter is ESC + the capital letter
			return k >= 'a' && k <= 'z' && c.Shifted != 0 && keyspec.AltPrefixable(byte(unicode.ToUpper(k)))
		}
	}
	return false
}

func (c KeyCase) event() vaxis.Key {
	return vaxis.Key{Keycode: rune(c.Key), Modifiers: vaxis.ModifierMask(c.Mods), Text: c.Text, ShiftedCode: rune(c.Shifted)}
}

type rig struct {
	vx *vxdrive.Session
}

func newRig() (*rig, error) {
	s, err := vxdrive.Start(20, 5, refterm.Caps{}, vxdrive.Opts{})
	if err != nil {
		return nil, err
	}
	s.Sync(10 * time.Second)
	s.Drain()
	return &rig{vx: s}, nil
}

// decode injects PTY bytes into the live Vaxis and returns the public events.
func (r *rig) decode(b []byte, gap bool) ([]vaxis.Event, bool) {
	r.vx.TTY.Inject(b)
	var out []vaxis.Event
	if gap {
		// the bytes end with a lone ESC: its event arrives when the
		// parser's timer fires. Wait for it (not for a fixed time) before
		// anything else is written behind it
		patience := time.After(3 * time.Second)
	await:
		for {
			select {
			case ev := <-r.vx.Vx.Events():
				switch ev.(type) {
				case vaxis.Key, vaxis.Mouse, vaxis.PasteStartEvent, vaxis.PasteEndEvent, vaxis.FocusIn, vaxis.FocusOut:
					out = append(out, ev)
				}
				if k, ok := ev.(vaxis.Key); ok && k.Keycode == vaxis.KeyEsc {
					break await
				}
			case <-patience:
				break await
			}
		}
	}
	r.vx.TTY.InjectString(fmt.Sprintf("\x1b[%du", sentinel))
	deadline := time.NewTimer(10 * time.Second)
	defer deadline.Stop()
	for {
		select {
		case ev := <-r.vx.Vx.Events():
			if k, ok := ev.(vaxis.Key); ok && k.Keycode == sentinel {
				return out, true
			}
			switch ev.(type) {
			case vaxis.Key, vaxis.Mouse, vaxis.PasteStartEvent, vaxis.PasteEndEvent, vaxis.FocusIn, vaxis.FocusOut:
				out = append(out, ev)
			}
		case <-deadline.C:
			return out, false
		}
	}
}

func emulator(setup string) (*termdrive.T, string) {
	e, err := termdrive.New(10, 4)
	if err != nil {
		return nil, err.Error()
	}
	if setup != "" {
		if _, pm := e.Feed([]byte(setup)); pm != "" {
			e.Close()
			return nil, pm
		}
	}
	e.TakeSettled()
	return e, ""
}

func update(e *termdrive.T, ev vaxis.Event) (out []byte, panicMsg string) {
	func() {
		defer func() {
			if r := recover(); r != nil {
				panicMsg = fmt.Sprintf("Update(%+v) panicked: %v", ev, r)
			}
		}()
		e.M.Update(ev)
	}()
	// the pipe is written synchronously; a marker behind the output tells
	// when the reader goroutine has delivered all of it
	out = e.TakeSettled()
	return
}

func runKey(r *rig, c KeyCase) string {
	setup := ""
	if c.DECCKM {
		setup += "\x1b[?1h"
	}
	if c.DECKPAM {
		setup += "\x1b="
	}
	e, pm := emulator(setup)
	if e == nil {
		return pm
	}
	defer e.Close()
	out, pm := update(e, c.event())
	if pm != "" {
		return pm
	}
	k := rune(c.Key)
	mods := vaxis.ModifierMask(c.Mods)
	// the child's cursor-key mode selects the encoding it asked for
	if mods == 0 {
		for key, final := range map[rune]byte{vaxis.KeyUp: 'A', vaxis.KeyDown: 'B', vaxis.KeyRight: 'C', vaxis.KeyLeft: 'D', vaxis.KeyHome: 'H', vaxis.KeyEnd: 'F'} {
			if k == key {
				want := "\x1b[" + string(final)
				if c.DECCKM {
					want = "\x1bO" + string(final)
				}
				if string(out) != want {
					return fmt.Sprintf("cursor key written as %q with DECCKM=%v DECKPAM=%v, the child asked for %q", out, c.DECCKM, c.DECKPAM, want)
				}
			}
		}
	}
	if !expressible(c) {
		return ""
	}
	if len(out) == 0 {
		return fmt.Sprintf("nothing was written to the child for %+v", c.event())
	}
	evs, ok := r.decode(out, string(out) == "\x1b")
	if !ok {
		return "-"
	}
	if len(evs) != 1 {
		return fmt.Sprintf("key %+v was written as %q, which the input pipeline reads as %d events %+v", c.event(), out, len(evs), evs)
	}
	got, isKey := evs[0].(vaxis.Key)
	if !isKey {
		return fmt.Sprintf("key %+v was written as %q, which the input pipeline reads as %T", c.event(), out, evs[0])
	}
	ok = got.Matches(k, mods)
	if !ok && mods == vaxis.ModShift|vaxis.ModAlt {
		// the legacy encoding carries Shift in the letter's case: ESC C is
		// Alt+C, which is the chord Alt+Shift+c
		ok = got.Matches(unicode.ToUpper(k), vaxis.ModAlt)
	}
	if !ok {
		return fmt.Sprintf("key %+v was written as %q, which the input pipeline reads as %+v: it does not match the original chord (%q, mods %03b)", c.event(), out, got, k, c.Mods)
	}
	return ""
}

func allKeyCases() []KeyCase {
	var out []KeyCase
	add := func(k rune, mods int, text string, shifted rune) {
		for _, ckm := range []bool{false, true} {
			for _, kpam := range []bool{false, true} {
				out = append(out, KeyCase{Key: int(k), Mods: mods, Text: text, Shifted: int(shifted), DECCKM: ckm, DECKPAM: kpam})
			}
		}
	}
	for _, k := range specialKeys {
		for m := 0; m < 8; m++ {
			add(k, m, "", 0)
		}
	}
	for _, k := range []rune{vaxis.KeyEnter, vaxis.KeyTab, vaxis.KeyEsc, vaxis.KeyBackspace} {
		for m := 0; m < 8; m++ {
			add(k, m, "", 0)
		}
	}
	for k := rune(0x20); k < 0x7f; k++ {
		for m := 0; m < 8; m++ {
			text := ""
			var shifted rune
			if m&^1 == 0 { // plain or shift: the terminal reports text
				text = string(k)
				if m == 1 && unicode.IsLower(k) {
					shifted = unicode.ToUpper(k)
					text = string(shifted)
				}
			}
			if m == 3 && unicode.IsLower(k) {
				// Shift+Alt: a host with the kitty protocol reports the
				// shifted code, no text
				shifted = unicode.ToUpper(k)
			}
			if unicode.IsUpper(k) {
				continue // chords are named by the unshifted key
			}
			add(k, m, text, shifted)
		}
	}
	return out
}

func TestKeys(t *testing.T) {
	if harness.ReplayPath() != "" {
		t.Skip()
	}
	const sub = "keys"
	r, err := newRig()
	if err != nil {
		t.Fatal(err)
	}
	defer r.vx.Close(5 * time.Second)
	fails := 0
	for i, c := range allKeyCases() {
		if !harness.Mine(i) || fails > 3 {
			continue
		}
		harness.R.Eval(sub)
		if c.Mods != 0 || c.DECCKM || c.DECKPAM {
			harness.R.Nontrivial(sub, c)
		}
		if !expressible(c) {
			harness.R.Label(sub, "outside-expressible-set(no-crash only)")
		}
		if i%500 == 0 {
			harness.R.Sample(sub, c)
		}
		msg := runKey(r, c)
		if msg == "-" {
			continue
		}
		if msg != "" {
			// confirm once on a fresh rig
			r2, err := newRig()
			if err == nil {
				m2 := runKey(r2, c)
				r2.vx.Close(5 * time.Second)
				if m2 == "" || m2 == "-" {
					continue
				}
				msg = m2
			}
			fails++
			harness.Fail(t, sub, msg, c)
		}
	}
	if fails == 0 {
		harness.R.Exhaustive(sub)
	}
}

// ---------------------------------------------------------------------------

type PasteCase struct {
	Start bool `json:"start"`
	Mode  bool `json:"mode2004"`
}

func TestPaste(t *testing.T) {
	if harness.ReplayPath() != "" {
		t.Skip()
	}
	if s, _ := harness.Shard(); s != 0 {
		return
	}
	const sub = "paste"
	r, err := newRig()
	if err != nil {
		t.Fatal(err)
	}
	defer r.vx.Close(5 * time.Second)
	for _, mode := range []bool{false, true} {
		for _, start := range []bool{true, false} {
			c := PasteCase{Start: start, Mode: mode}
			harness.R.Eval(sub)
			harness.R.Nontrivial(sub, c)
			harness.R.Sample(sub, c)
			setup := ""
			if mode {
				setup = "\x1b[?2004h"
			}
			e, pm := emulator(setup)
			if e == nil {
				t.Fatal(pm)
			}
			var ev vaxis.Event = vaxis.PasteEndEvent{}
			if start {
				ev = vaxis.PasteStartEvent{}
			}
			out, pm := update(e, ev)
			e.Close()
			if pm != "" {
				harness.Fail(t, sub, pm, c)
				return
			}
			if !mode {
				if len(out) != 0 {
					harness.Fail(t, sub, fmt.Sprintf("%T wrote %q although the child has not enabled bracketed paste", ev, out), c)
					return
				}
				continue
			}
			evs, ok := r.decode(out, false)
			if !ok {
				continue
			}
			okEv := len(evs) == 1
			if okEv {
				if start {
					_, okEv = evs[0].(vaxis.PasteStartEvent)
				} else {
					_, okEv = evs[0].(vaxis.PasteEndEvent)
				}
			}
			if !okEv {
				harness.Fail(t, sub, fmt.Sprintf("%T was written as %q, which the input pipeline reads as %+v", ev, out, evs), c)
				return
			}
		}
	}
	harness.R.Exhaustive(sub)
}

// ---------------------------------------------------------------------------

type MouseCase struct {
	Button int  `json:"button"`
	Col    int  `json:"col"`
	Row    int  `json:"row"`
	Type   int  `json:"type"` // vaxis.EventPress / EventRelease / EventMotion
	M1000  bool `json:"m1000"`
	M1002  bool `json:"m1002"`
	M1003  bool `json:"m1003"`
	M1006  bool `json:"m1006"`
	Alt    bool `json:"alt"`
}

func enabled(c MouseCase) bool {
	switch vaxis.EventType(c.Type) {
	case vaxis.EventMotion:
		if vaxis.MouseButton(c.Button) == vaxis.MouseNoButton {
			return c.M1003
		}
		return c.M1002 || c.M1003
	default:
		return c.M1000 || c.M1002 || c.M1003
	}
}

func runMouse(r *rig, c MouseCase) string {
	var sb strings.Builder
	if c.Alt {
		sb.WriteString("\x1b[?1049h")
	}
	for _, m := range []struct {
		on bool
		n  int
	}{{c.M1000, 1000}, {c.M1002, 1002}, {c.M1003, 1003}, {c.M1006, 1006}} {
		if m.on {
			fmt.Fprintf(&sb, "\x1b[?%dh", m.n)
		}
	}
	e, pm := emulator(sb.String())
	if e == nil {
		return pm
	}
	defer e.Close()
	ev := vaxis.Mouse{Button: vaxis.MouseButton(c.Button), Col: c.Col, Row: c.Row, EventType: vaxis.EventType(c.Type)}
	out, pm := update(e, ev)
	if pm != "" {
		return pm
	}
	wheel := ev.Button == vaxis.MouseWheelUp || ev.Button == vaxis.MouseWheelDown
	if !enabled(c) {
		if len(out) != 0 && !(c.Alt && wheel && !c.M1000 && !c.M1002 && !c.M1003) {
			return fmt.Sprintf("mouse event %+v wrote %q to the child, which has not enabled reports for it (1000=%v 1002=%v 1003=%v 1006=%v)", ev, out, c.M1000, c.M1002, c.M1003, c.M1006)
		}
		return ""
	}
	if len(out) == 0 {
		return fmt.Sprintf("mouse event %+v wrote nothing although the child enabled reports for it (1000=%v 1002=%v 1003=%v 1006=%v)", ev, c.M1000, c.M1002, c.M1003, c.M1006)
	}
	if !c.M1006 {
		return "" // legacy encoding: not decodable by design, only gating is asserted
	}
	evs, ok := r.decode(out, false)
	if !ok {
		return "-"
	}
	if len(evs) != 1 {
		return fmt.Sprintf("mouse event %+v was written as %q, which the input pipeline reads as %d events", ev, out, len(evs))
	}
	got, isMouse := evs[0].(vaxis.Mouse)
	if !isMouse {
		return fmt.Sprintf("mouse event %+v was written as %q, which the input pipeline reads as %T", ev, out, evs[0])
	}
	if got.Button != ev.Button || got.Col != ev.Col || got.Row != ev.Row || got.EventType != ev.EventType {
		return fmt.Sprintf("mouse event %+v was written as %q, which the input pipeline reads as %+v", ev, out, got)
	}
	return ""
}

func allMouseCases() []MouseCase {
	var out []MouseCase
	buttons := []int{0, 1, 2, 3, 64, 65, 128, 129, 130, 131}
	pos := [][2]int{{0, 0}, {1, 0}, {0, 1}, {9, 3}, {79, 23}, {222, 222}, {300, 300}}
	if harness.Thorough() {
		for x := 0; x <= 300; x += 13 {
			for y := 0; y <= 300; y += 37 {
				pos = append(pos, [2]int{x, y})
			}
		}
	}
	for _, b := range buttons {
		for _, p := range pos {
			for _, ty := range []vaxis.EventType{vaxis.EventPress, vaxis.EventRelease, vaxis.EventMotion} {
				for modes := 0; modes < 16; modes++ {
					for _, alt := range []bool{false, true} {
						out = append(out, MouseCase{Button: b, Col: p[0], Row: p[1], Type: int(ty),
							M1000: modes&1 != 0, M1002: modes&2 != 0, M1003: modes&4 != 0, M1006: modes&8 != 0, Alt: alt})
					}
				}
			}
		}
	}
	return out
}

func TestMouse(t *testing.T) {
	if harness.ReplayPath() != "" {
		t.Skip()
	}
	const sub = "mouse"
	r, err := newRig()
	if err != nil {
		t.Fatal(err)
	}
	defer r.vx.Close(5 * time.Second)
	fails := 0
	for i, c := range allMouseCases() {
		if !harness.Mine(i) || fails > 3 {
			continue
		}
		harness.R.Eval(sub)
		if c.M1000 || c.M1002 || c.M1003 || c.M1006 {
			harness.R.Nontrivial(sub, c)
		}
		if i%2000 == 0 {
			harness.R.Sample(sub, c)
		}
		msg := runMouse(r, c)
		if msg == "-" {
			continue
		}
		if msg != "" {
			fails++
			harness.Fail(t, sub, msg, c)
		}
	}
	if fails == 0 {
		harness.R.Exhaustive(sub)
	}
}

// ---------------------------------------------------------------------------
// mode histories: the modes in force are the result of any sequence of sets
// and resets the child sent, not only of a fresh set

type ModeOp struct {
	Set   bool  `json:"set"`
	Modes []int `json:"modes"` // DEC private modes in one CSI ? … h/l; 0 = RIS, -1 = ESC =, -2 = ESC >
}

type HistCase struct {
	Ops   []ModeOp   `json:"ops"`
	Ev    string     `json:"ev"` // mouse paste-start paste-end up
	Mouse *MouseCase `json:"mouse,omitempty"`
	// Pre > 0: the same event was already handed to the terminal once, after
	// the first Pre operations (what is written for an event depends on the
	// modes in force now, not on what was written for it before)
	Pre int `json:"pre,omitempty"`
}

func (h HistCase) bytes() string {
	var sb strings.Builder
	for _, o := range h.Ops {
		if len(o.Modes) == 1 && o.Modes[0] <= 0 {
			switch o.Modes[0] {
			case 0:
				sb.WriteString("\x1bc")
			case -1:
				sb.WriteString("\x1b=")
			case -2:
				sb.WriteString("\x1b>")
			}
			continue
		}
		var ps []string
		for _, m := range o.Modes {
			ps = append(ps, fmt.Sprint(m))
		}
		hl := "l"
		if o.Set {
			hl = "h"
		}
		sb.WriteString("\x1b[?" + strings.Join(ps, ";") + hl)
	}
	return sb.String()
}

// final computes the modes in force: last write wins, RIS resets everything.
func (h HistCase) final() map[int]bool {
	m := map[int]bool{}
	for _, o := range h.Ops {
		for _, md := range o.Modes {
			switch {
			case md == 0:
				m = map[int]bool{}
			case md > 0:
				m[md] = o.Set
			}
		}
	}
	return m
}

func runHist(r *rig, h HistCase) string {
	var e *termdrive.T
	var pm string
	if h.Pre > 0 && h.Pre <= len(h.Ops) {
		first := HistCase{Ops: h.Ops[:h.Pre]}
		e, pm = emulator(first.bytes())
		if e == nil {
			return pm
		}
		var ev vaxis.Event
		switch h.Ev {
		case "mouse":
			ev = vaxis.Mouse{Button: vaxis.MouseButton(h.Mouse.Button), Col: h.Mouse.Col, Row: h.Mouse.Row, EventType: vaxis.EventType(h.Mouse.Type)}
		case "paste-start":
			ev = vaxis.PasteStartEvent{}
		case "paste-end":
			ev = vaxis.PasteEndEvent{}
		default:
			ev = vaxis.Key{Keycode: vaxis.KeyUp}
		}
		if _, pm := update(e, ev); pm != "" {
			e.Close()
			return pm
		}
		rest := HistCase{Ops: h.Ops[h.Pre:]}
		if b := rest.bytes(); b != "" {
			if _, pm := e.Feed([]byte(b)); pm != "" {
				e.Close()
				return pm
			}
		}
		e.TakeSettled()
	} else {
		e, pm = emulator(h.bytes())
		if e == nil {
			return pm
		}
	}
	defer e.Close()
	fin := h.final()
	switch h.Ev {
	case "mouse":
		c := *h.Mouse
		c.M1000, c.M1002, c.M1003, c.M1006, c.Alt = fin[1000], fin[1002], fin[1003], fin[1006], fin[1049]
		ev := vaxis.Mouse{Button: vaxis.MouseButton(c.Button), Col: c.Col, Row: c.Row, EventType: vaxis.EventType(c.Type)}
		out, pm := update(e, ev)
		if pm != "" {
			return pm
		}
		wheel := ev.Button == vaxis.MouseWheelUp || ev.Button == vaxis.MouseWheelDown
		if !enabled(c) {
			if len(out) != 0 && !(wheel && !c.M1000 && !c.M1002 && !c.M1003) {
				return fmt.Sprintf("after %q mouse event %+v wrote %q to the child, which does not have reports for it enabled any more (1000=%v 1002=%v 1003=%v)", h.bytes(), ev, out, c.M1000, c.M1002, c.M1003)
			}
			return ""
		}
		if len(out) == 0 {
			return fmt.Sprintf("after %q mouse event %+v wrote nothing although reports for it are enabled (1000=%v 1002=%v 1003=%v)", h.bytes(), ev, c.M1000, c.M1002, c.M1003)
		}
		if c.M1006 != strings.HasPrefix(string(out), "\x1b[<") {
			return fmt.Sprintf("after %q mouse event %+v was written as %q, SGR encoding in force: %v", h.bytes(), ev, out, c.M1006)
		}
	case "paste-start", "paste-end":
		var ev vaxis.Event = vaxis.PasteStartEvent{}
		want := "\x1b[200~"
		if h.Ev == "paste-end" {
			ev, want = vaxis.PasteEndEvent{}, "\x1b[201~"
		}
		out, pm := update(e, ev)
		if pm != "" {
			return pm
		}
		if !fin[2004] {
			want = ""
		}
		if string(out) != want {
			return fmt.Sprintf("after %q %T wrote %q, want %q (bracketed paste in force: %v)", h.bytes(), ev, out, want, fin[2004])
		}
	case "up":
		out, pm := update(e, vaxis.Key{Keycode: vaxis.KeyUp})
		if pm != "" {
			return pm
		}
		want := "\x1b[A"
		if fin[1] {
			want = "\x1bOA"
		}
		if string(out) != want {
			return fmt.Sprintf("after %q the Up key was written as %q, the child's cursor-key mode asks for %q", h.bytes(), out, want)
		}
	}
	return ""
}

func TestModeHistories(t *testing.T) {
	const sub = "mode-histories"
	n := harness.PerShard(harness.Scale(40_000, 2_000_000))
	modes := []int{1000, 1002, 1003, 1006, 2004, 1, 1049, 1007, 25, 7}
	harness.Check(t, sub, n, func(rt *rapid.T) HistCase {
		var h HistCase
		k := rapid.IntRange(0, 8).Draw(rt, "nops")
		for i := 0; i < k; i++ {
			switch rapid.IntRange(0, 11).Draw(rt, "kind") {
			case 0:
				h.Ops = append(h.Ops, ModeOp{Modes: []int{rapid.SampledFrom([]int{0, -1, -2}).Draw(rt, "special")}})
			default:
				op := ModeOp{Set: rapid.Bool().Draw(rt, "set")}
				nm := 1
				if rapid.IntRange(0, 3).Draw(rt, "multi") == 0 {
					nm = rapid.IntRange(2, 3).Draw(rt, "nm")
				}
				for j := 0; j < nm; j++ {
					op.Modes = append(op.Modes, rapid.SampledFrom(modes).Draw(rt, "mode"))
				}
				h.Ops = append(h.Ops, op)
			}
		}
		h.Ev = rapid.SampledFrom([]string{"mouse", "mouse", "up", "mouse", "paste-start", "paste-end", "up"}).Draw(rt, "ev")
		if k > 0 && rapid.IntRange(0, 2).Draw(rt, "delivered-before") != 0 {
			h.Pre = rapid.IntRange(1, k).Draw(rt, "pre")
			harness.R.Label(sub, "the same event was delivered once earlier in the history")
		}
		if h.Ev == "mouse" {
			h.Mouse = &MouseCase{Button: rapid.SampledFrom([]int{0, 1, 2, 3, 64, 65}).Draw(rt, "btn"), Col: rapid.IntRange(0, 9).Draw(rt, "col"), Row: rapid.IntRange(0, 3).Draw(rt, "row"),
				Type: int(rapid.SampledFrom([]vaxis.EventType{vaxis.EventPress, vaxis.EventRelease, vaxis.EventMotion}).Draw(rt, "type"))}
		}
		resets := false
		for _, o := range h.Ops {
			if !o.Set {
				resets = true
			}
		}
		if resets {
			harness.R.Nontrivial(sub, h)
		}
		harness.R.Sample(sub, h)
		return h
	}, func(h HistCase) string { return runHist(nil, h) })
}

func TestReplay(t *testing.T) {
	withRig := func(f func(r *rig) string) string {
		r, err := newRig()
		if err != nil {
			return ""
		}
		defer r.vx.Close(5 * time.Second)
		m := f(r)
		if m == "-" {
			return ""
		}
		return m
	}
	harness.ReplayAll(t, map[string]harness.Runner{
		"keys":           harness.Decode(func(c KeyCase) string { return withRig(func(r *rig) string { return runKey(r, c) }) }),
		"mouse":          harness.Decode(func(c MouseCase) string { return withRig(func(r *rig) string { return runMouse(r, c) }) }),
		"paste":          harness.Decode(func(c PasteCase) string { return "" }),
		"mode-histories": harness.Decode(func(h HistCase) string { return runHist(nil, h) }),
	})
}
