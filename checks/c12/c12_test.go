//go:build verif

package c12

import (
	"bytes"
	"fmt"
	"image"
	"image/color"
	"sync"
	"testing"
	"time"

	vaxis "git.sr.ht/~rockorager/vaxis"
	"git.sr.ht/~rockorager/vaxis/widgets/term"
	"github.com/mattn/go-sixel"
	"pgregory.net/rapid"

	"verif/internal/faketty"
	"verif/internal/frames"
	"verif/internal/gen"
	"verif/internal/harness"
	"verif/internal/model"
	"verif/internal/refterm"
	"verif/internal/termdrive"
	"verif/internal/vtref"
	"verif/internal/vxdrive"
	"verif/internal/widthtab"
)

func TestMain(m *testing.M) { harness.Main(m, "C12") }

// emuSink feeds what Vaxis writes to the emulator, holding back an
// incomplete trailing sequence.
type emuSink struct {
	mu    sync.Mutex
	t     *termdrive.T
	pend  []byte
	probe *vtref.Stream
	panic string
}

func (s *emuSink) Write(p []byte) (int, error) {
	s.mu.Lock()
	defer s.mu.Unlock()
	s.pend = append(s.pend, p...)
	s.probe.Feed(p)
	if s.probe.InSequence() {
		return len(p), nil
	}
	b := s.pend
	s.pend = nil
	if _, pm := s.t.Feed(b); pm != "" && s.panic == "" {
		s.panic = pm
	}
	return len(p), nil
}

// the capability set the emulator's replies establish
var emuCaps = refterm.Caps{SixelDA1: true}

type session struct {
	emu  *termdrive.T
	sink *emuSink
	tty  *faketty.TTY
	s    *vxdrive.Session
}

func start(cols, rows int, o vxdrive.Opts) (*session, error) {
	emu, err := termdrive.New(cols, rows)
	if err != nil {
		return nil, err
	}
	emu.M.Focus()
	sink := &emuSink{t: emu, probe: vtref.NewStream()}
	tty := faketty.NewWithSink(cols, rows, sink)
	emu.Tap = func(b []byte) { tty.Inject(b) }
	s, err := vxdrive.StartOn(tty, o)
	if err != nil {
		emu.Close()
		return nil, err
	}
	return &session{emu: emu, sink: sink, tty: tty, s: s}, nil
}

func (x *session) close() {
	x.s.Close(5 * time.Second)
	x.emu.Close()
}

func emuColor(c vaxis.Color) refterm.Color {
	ps := c.Params()
	switch len(ps) {
	case 1:
		return refterm.Color{Kind: refterm.ColIndex, V: uint32(ps[0])}
	case 3:
		return refterm.Color{Kind: refterm.ColRGB, V: uint32(ps[0])<<16 | uint32(ps[1])<<8 | uint32(ps[2])}
	}
	return refterm.Color{}
}

func in(c refterm.Color, set []refterm.Color) bool {
	for _, s := range set {
		if s == c {
			return true
		}
	}
	return false
}

func blank(g string) bool { return g == "" || g == " " }

// compareSnapshot: emulator state == expected display.
func compareSnapshot(st term.VerifState, exp [][]model.ExpCell, cw model.CursorWant) string {
	if st.Rows != len(exp) || (len(exp) > 0 && st.Cols != len(exp[0])) {
		return fmt.Sprintf("emulator is %dx%d, screen is %dx%d", st.Cols, st.Rows, len(exp[0]), len(exp))
	}
	for r := range exp {
		for c := 0; c < len(exp[r]); c++ {
			e := exp[r][c]
			got := st.Active[r][c]
			where := fmt.Sprintf("row %d col %d", r, c)
			if e.W == 0 {
				if !blank(got.Grapheme) {
					return fmt.Sprintf("%s: emulator shows %q where the right half of a wide character is", where, got.Grapheme)
				}
				continue
			}
			if blank(e.G) {
				if !blank(got.Grapheme) {
					return fmt.Sprintf("%s: emulator shows %q, application set a blank", where, got.Grapheme)
				}
			} else {
				if got.Grapheme != e.G {
					return fmt.Sprintf("%s: emulator shows %q, application set %q", where, got.Grapheme, e.G)
				}
				if got.Width != e.W {
					return fmt.Sprintf("%s: %q has width %d in the emulator, %d on the application's screen", where, e.G, got.Width, e.W)
				}
			}
			s := got.Style
			switch {
			case !in(emuColor(s.Foreground), e.Style.Fg):
				return fmt.Sprintf("%s (%q): foreground %v, want one of %v", where, e.G, emuColor(s.Foreground), e.Style.Fg)
			case !in(emuColor(s.Background), e.Style.Bg):
				return fmt.Sprintf("%s (%q): background %v, want one of %v", where, e.G, emuColor(s.Background), e.Style.Bg)
			case uint8(s.Attribute)>>1 != e.Style.Attrs:
				return fmt.Sprintf("%s (%q): attributes %07b, want %07b", where, e.G, uint8(s.Attribute)>>1, e.Style.Attrs)
			case uint8(s.UnderlineStyle) != e.Style.UlStyle:
				return fmt.Sprintf("%s (%q): underline style %d, want %d", where, e.G, s.UnderlineStyle, e.Style.UlStyle)
			case e.Style.UlStyle != 0 && !in(emuColor(s.UnderlineColor), e.Style.Ul):
				return fmt.Sprintf("%s (%q): underline colour %v, want one of %v", where, e.G, emuColor(s.UnderlineColor), e.Style.Ul)
			case s.Hyperlink != e.Style.Link:
				return fmt.Sprintf("%s (%q): hyperlink %q, want %q", where, e.G, s.Hyperlink, e.Style.Link)
			case s.Hyperlink != "" && s.HyperlinkParams != e.Style.LinkP:
				return fmt.Sprintf("%s (%q): hyperlink params %q, want %q", where, e.G, s.HyperlinkParams, e.Style.LinkP)
			}
		}
	}
	if cw.Visible {
		if !st.CursorVisible {
			return "cursor hidden in the emulator, application asked for it"
		}
		if st.CursorRow != cw.Row || st.CursorCol != cw.Col {
			return fmt.Sprintf("cursor at row %d col %d in the emulator, application asked for row %d col %d", st.CursorRow, st.CursorCol, cw.Row, cw.Col)
		}
		if st.CursorShape != cw.Shape {
			return fmt.Sprintf("cursor shape %d in the emulator, application asked for %d", st.CursorShape, cw.Shape)
		}
	} else if st.CursorVisible {
		return "cursor visible in the emulator, application asked for it hidden"
	}
	if !st.AltScreen {
		return "emulator is not on its alternate screen"
	}
	return ""
}

// drawCheck: Model.Draw into a same-size window of a second Vaxis shows the snapshot.
func drawCheck(x *session, host *vxdrive.Session) string {
	st := x.emu.M.VerifSnapshot()
	vx := host.Vx
	vx.HideCursor()
	vx.Window().Clear()
	win := vx.Window().New(0, 0, st.Cols, st.Rows)
	x.emu.M.Draw(win)
	vx.Render()
	t := host.Term
	t.Lock()
	defer t.Unlock()
	grid := t.Grid()
	for r := 0; r < st.Rows; r++ {
		for c := 0; c < st.Cols; {
			e := st.Active[r][c]
			w := e.Width
			if w < 1 {
				w = 1
			}
			got := grid[r][c]
			where := fmt.Sprintf("row %d col %d", r, c)
			if got.Poison != "" {
				return fmt.Sprintf("Draw: %s: terminal-specific result (%s)", where, got.Poison)
			}
			if blank(e.Grapheme) != blank(got.G) || (!blank(e.Grapheme) && (e.Grapheme != got.G || got.W != w)) {
				return fmt.Sprintf("Draw: %s: host shows %q (w=%d), emulator cell is %q (w=%d)", where, got.G, got.W, e.Grapheme, e.Width)
			}
			s := e.Style
			if emuColor(s.Foreground) != got.Style.Fg || emuColor(s.Background) != got.Style.Bg || uint8(s.Attribute)>>1 != got.Style.Attrs ||
				uint8(s.UnderlineStyle) != got.Style.UlStyle || (s.UnderlineStyle != 0 && emuColor(s.UnderlineColor) != got.Style.Ul) || s.Hyperlink != got.Style.Link {
				return fmt.Sprintf("Draw: %s (%q): host style %v, emulator cell style fg=%v bg=%v attrs=%07b ul=%d link=%q", where, e.Grapheme, got.Style, emuColor(s.Foreground), emuColor(s.Background), uint8(s.Attribute)>>1, s.UnderlineStyle, s.Hyperlink)
			}
			c += w
		}
	}
	if st.CursorVisible {
		if !t.C.Visible || t.C.Row != st.CursorRow || t.C.Col != st.CursorCol || t.C.Shape != st.CursorShape {
			return fmt.Sprintf("Draw: host cursor visible=%v (%d,%d) shape %d, emulator cursor (%d,%d) shape %d", t.C.Visible, t.C.Row, t.C.Col, t.C.Shape, st.CursorRow, st.CursorCol, st.CursorShape)
		}
	} else if t.C.Visible {
		return "Draw: host cursor visible, emulator cursor hidden"
	}
	return ""
}

func capsCheck(vx *vaxis.Vaxis) string {
	type acc struct {
		name      string
		got, want bool
	}
	for _, a := range []acc{
		{"CanRGB", vx.CanRGB(), false},
		{"CanSixel", vx.CanSixel(), true},
		{"CanKittyGraphics", vx.CanKittyGraphics(), false},
		{"CanReportColor", vx.CanReportColor(), false},
		{"CanReportForegroundColor", vx.CanReportForegroundColor(), false},
		{"CanReportBackgroundColor", vx.CanReportBackgroundColor(), false},
		{"CanSetAppID", vx.CanSetAppID(), false},
		{"CanUnicodeCore", vx.CanUnicodeCore(), false},
		{"CanExplicitWidth", vx.CanExplicitWidth(), false},
	} {
		if a.got != a.want {
			return fmt.Sprintf("after the start-up handshake %s() = %v, the emulator implements: %v", a.name, a.got, a.want)
		}
	}
	if id := vx.TerminalID(); id != "" {
		return fmt.Sprintf("TerminalID() = %q, the emulator does not answer XTVERSION", id)
	}
	return ""
}

func runOnce(c frames.Case) string {
	x, err := start(c.Cols, c.Rows, c.Opts)
	if err != nil {
		return "vaxis.New against the emulator failed: " + err.Error()
	}
	defer x.close()
	if _, ok := x.s.Sync(10 * time.Second); !ok {
		return "input loop delivers nothing after start-up inside the emulator"
	}
	x.s.Drain()
	if msg := capsCheck(x.s.Vx); msg != "" {
		return msg
	}
	host, err := vxdrive.Start(c.Cols, c.Rows, refterm.Caps{RGB: true, Smulx: true, Unicode2027: true}, vxdrive.Opts{DisableMouse: true})
	if err != nil {
		return ""
	}
	defer host.Close(5 * time.Second)
	host.Sync(10 * time.Second)
	host.Drain()
	tc := model.TermConfig{Caps: emuCaps}
	method := tc.Method()
	m := model.NewMirror(c.Cols, c.Rows)
	cw := model.CursorWant{}
	for fi, f := range c.Frames {
		for _, op := range f.Ops {
			frames.ApplyMirror(m, &cw, op, method)
			frames.ApplyVaxis(x.s.Vx, op)
		}
		switch f.End {
		case "refresh":
			x.s.Vx.Refresh()
		default:
			x.s.Vx.Render()
		}
		what := fmt.Sprintf("frame %d (%s)", fi, f.End)
		x.sink.mu.Lock()
		pm := x.sink.panic
		x.sink.mu.Unlock()
		if pm != "" {
			return what + ": emulator " + pm
		}
		exp, overflow := tc.Expected(m)
		if overflow > 0 {
			return ""
		}
		if msg := compareSnapshot(x.emu.M.VerifSnapshot(), exp, cw); msg != "" {
			return what + ": " + msg
		}
		if msg := drawCheck(x, host); msg != "" {
			return what + ": " + msg
		}
	}
	return ""
}

var run = harness.Confirm(runOnce, 2)

func TestHistories(t *testing.T) {
	const sub = "histories"
	// graphemes measured alike by wcwidth (Vaxis inside the emulator) and by
	// cluster width (the emulator): everything but ZWJ / VS16 / modifier sequences
	gen.Only = map[string]bool{}
	excluded := 0
	for _, e := range widthtab.Table {
		if e.W[widthtab.Wcwidth] == e.W[widthtab.Unicode] {
			gen.Only[e.G] = true
		} else {
			excluded++
		}
	}
	harness.R.Note("graphemes excluded because wcwidth and cluster width differ: %d of %d table entries", excluded, len(widthtab.Table))
	n := harness.PerShard(harness.Scale(60_000, 2_000_000))
	harness.Check(t, sub, n, func(rt *rapid.T) frames.Case {
		caps := emuCaps
		c := frames.GenCaseFor(rt, &caps, false)
		if c.Cols < 2 {
			c.Cols = 2 // (a one-column screen exercises nothing new here)
			for i := range c.Frames {
				c.Frames[i].Ops = nil
			}
		}
		frames.Classify(sub, c)
		return c
	}, run)
}

// the sixel Vaxis would send must be accepted by the emulator that advertised sixel
func TestSixelAsVaxisEncodesIt(t *testing.T) {
	if harness.ReplayPath() != "" {
		t.Skip()
	}
	if s, _ := harness.Shard(); s != 0 {
		return
	}
	const sub = "sixel"
	// a sixel as other programs send it: header parameters, raster attributes
	for _, in := range []string{"\x1bP0;0;8q\"1;1;2;6#0;2;0;0;0#1;2;100;0;0#0~~$#1??\x1b\\", "\x1bP0;1q#0;2;0;0;0#0~~\x1b\\", "\x1bPq#0;2;0;0;0#0~~\x1b\\"} {
		harness.R.Eval(sub)
		harness.R.Nontrivial(sub, in)
		emu, err := termdrive.New(20, 10)
		if err != nil {
			t.Fatal(err)
		}
		_, pm := emu.Feed([]byte(in))
		n := emu.M.VerifSnapshot().Graphics
		emu.Close()
		if pm != "" || n != 1 {
			harness.Fail(t, sub, fmt.Sprintf("the emulator advertises sixel in DA1 but does not accept the sixel image %q (graphics: %d) %s", in, n, pm), in)
			return
		}
	}
	for _, size := range [][2]int{{1, 1}, {6, 6}, {13, 7}} {
		harness.R.Eval(sub)
		harness.R.Nontrivial(sub, size)
		img := image.NewRGBA(image.Rect(0, 0, size[0], size[1]))
		for y := 0; y < size[1]; y++ {
			for x := 0; x < size[0]; x++ {
				img.Set(x, y, color.RGBA{uint8(255 * ((x + y) % 2)), 0, uint8(255 * (x % 2)), 255}) // few colours: go-sixel cannot decode its own many-colour output
			}
		}
		var buf bytes.Buffer
		if err := sixel.NewEncoder(&buf).Encode(img); err != nil {
			t.Fatal(err)
		}
		harness.R.Sample(sub, fmt.Sprintf("%dx%d image, %d bytes, starts %q", size[0], size[1], buf.Len(), buf.Bytes()[:12]))
		emu, err := termdrive.New(20, 10)
		if err != nil {
			t.Fatal(err)
		}
		before := emu.M.VerifSnapshot().Graphics
		_, pm := emu.Feed(buf.Bytes())
		after := emu.M.VerifSnapshot().Graphics
		emu.Close()
		if pm != "" {
			harness.Fail(t, sub, "emulator "+pm, size)
			return
		}
		if after != before+1 {
			if harness.Known("C12-A51") {
				harness.R.KnownFinding("C12-A51", harness.Title("C12-A51"))
				return
			}
			harness.Fail(t, sub, fmt.Sprintf("the emulator advertises sixel in DA1, but the sixel image Vaxis's encoder writes (%q…) is dropped: %d graphics before, %d after", buf.Bytes()[:10], before, after), size)
			return
		}
	}
}

// HandshakeCase: the emulator is first drawn into a host Vaxis (which may
// support OSC 11 and answers after a delay), then a Vaxis starts inside it.
type HandshakeCase struct {
	HostOSC11 bool `json:"host_osc11"`
	DelayMS   int  `json:"delay_ms"`
	Cols      int  `json:"cols"`
	Rows      int  `json:"rows"`
}

func runHandshakeOnce(c HandshakeCase) string {
	host, err := vxdrive.Start(c.Cols, c.Rows, refterm.Caps{OSC11: c.HostOSC11, RGB: true, Unicode2027: true}, vxdrive.Opts{DisableMouse: true})
	if err != nil {
		return ""
	}
	defer host.Close(5 * time.Second)
	host.Sync(10 * time.Second)
	host.Drain()
	if c.DelayMS > 0 {
		host.Term.Lock()
		host.Term.Hold = func(kind string, reply []byte) bool {
			if kind != "osc11" {
				return false
			}
			r := append([]byte{}, reply...)
			go func() {
				time.Sleep(time.Duration(c.DelayMS) * time.Millisecond)
				host.TTY.Inject(r)
			}()
			return true
		}
		host.Term.Unlock()
	}
	emu, err := termdrive.New(c.Cols, c.Rows)
	if err != nil {
		return ""
	}
	defer emu.Close()
	// attach the host: draw once
	emu.M.Draw(host.Vx.Window())
	host.Vx.Render()
	sink := &emuSink{t: emu, probe: vtref.NewStream()}
	tty := faketty.NewWithSink(c.Cols, c.Rows, sink)
	emu.Tap = func(b []byte) { tty.Inject(b) }
	a, err := vxdrive.StartOn(tty, vxdrive.Opts{})
	if err != nil {
		return "vaxis.New inside the emulator failed: " + err.Error()
	}
	defer a.Close(5 * time.Second)
	if got := a.Vx.CanReportBackgroundColor(); got != c.HostOSC11 {
		return fmt.Sprintf("a Vaxis started inside the emulator has CanReportBackgroundColor() = %v, but the emulator (attached to a host that %s OSC 11, reply latency %d ms) %s the query", got,
			map[bool]string{true: "supports", false: "lacks"}[c.HostOSC11], c.DelayMS, map[bool]string{true: "answers", false: "does not answer"}[c.HostOSC11])
	}
	for name, got := range map[string]bool{"CanRGB": a.Vx.CanRGB(), "CanKittyGraphics": a.Vx.CanKittyGraphics(), "CanUnicodeCore": a.Vx.CanUnicodeCore(), "CanExplicitWidth": a.Vx.CanExplicitWidth(), "CanReportColor": a.Vx.CanReportColor()} {
		if got {
			return fmt.Sprintf("%s() = true after the handshake; the emulator does not implement it", name)
		}
	}
	if !a.Vx.CanSixel() {
		return "CanSixel() = false; the emulator advertises sixel in DA1"
	}
	return ""
}

func TestHandshakeWithHost(t *testing.T) {
	if harness.ReplayPath() != "" {
		t.Skip()
	}
	const sub = "handshake"
	idx := 0
	for _, osc11 := range []bool{true, false} {
		for _, d := range []int{0, 1, 2, 5, 25} {
			for _, size := range [][2]int{{4, 2}, {20, 6}} {
				idx++
				if !harness.Mine(idx) {
					continue
				}
				c := HandshakeCase{HostOSC11: osc11, DelayMS: d, Cols: size[0], Rows: size[1]}
				harness.R.Eval(sub)
				harness.R.Nontrivial(sub, c)
				harness.R.Sample(sub, c)
				if msg := harness.Confirm(runHandshakeOnce, 2)(c); msg != "" {
					harness.Fail(t, sub, msg, c)
					return
				}
			}
		}
	}
	harness.R.Exhaustive(sub)
}

func TestReplay(t *testing.T) {
	harness.ReplayAll(t, map[string]harness.Runner{"histories": harness.Decode(run), "handshake": harness.Decode(harness.Confirm(runHandshakeOnce, 2))})
}
