package c01

import (
	"fmt"
	"testing"
	"time"

	vaxis "git.sr.ht/~rockorager/vaxis"
	"pgregory.net/rapid"

	"verif/internal/frames"
	"verif/internal/gen"
	"verif/internal/harness"
	"verif/internal/model"
	"verif/internal/refterm"
	"verif/internal/vxdrive"
)

func TestMain(m *testing.M) { harness.Main(m, "C01") }

type cursorWant = model.CursorWant

func checkFrame(s *vxdrive.Session, tc model.TermConfig, m *model.Mirror, cw cursorWant, what string) string {
	return model.CheckDisplay(s.Term, tc, m, cw, what)
}

var run = harness.Confirm(runOnce, 2)

func runOnce(c frames.Case) string {
	s, err := vxdrive.Start(c.Cols, c.Rows, c.Caps, c.Opts)
	if err != nil {
		return "vaxis.New failed: " + err.Error()
	}
	defer func() {
		if !s.Close(10 * time.Second) {
			harness.R.Label("run", "close-timeout")
		}
	}()
	if _, ok := s.Sync(10 * time.Second); !ok {
		return "input loop did not deliver a focus report after start-up"
	}
	s.Drain()
	s.TTY.Capture = true
	tc := model.TermConfig{Caps: c.Caps}
	method := tc.Method()
	m := model.NewMirror(c.Cols, c.Rows)
	cw := cursorWant{}
	for fi, f := range c.Frames {
		for _, op := range f.Ops {
			frames.ApplyMirror(m, &cw, op, method)
			frames.ApplyVaxis(s.Vx, op)
		}
		what := fmt.Sprintf("frame %d (%s)", fi, f.End)
		s.TTY.TakeOut()
		switch f.End {
		case "render":
			s.Vx.Render()
		case "refresh":
			for _, sc := range f.Scribble {
				s.Term.Scribble(sc.Row, sc.Col, sc.G, sc.W, refterm.Style{Fg: refterm.Color{Kind: refterm.ColIndex, V: 1}, Attrs: refterm.ABold})
			}
			s.Vx.Refresh()
		case "resize":
			same := f.Cols == m.Cols && f.Rows == m.Rows
			if !same {
				for _, sc := range f.Scribble {
					s.Term.Scribble(sc.Row, sc.Col, sc.G, sc.W, refterm.Style{Bg: refterm.Color{Kind: refterm.ColIndex, V: 2}})
				}
			}
			s.TTY.SetSize(f.Cols, f.Rows)
			if c.Caps.InBand2048 {
				s.Term.NotifyResize()
				evs, ok := s.Sync(10 * time.Second)
				if !ok {
					return what + ": input loop stopped delivering events after an in-band resize report"
				}
				redraw := false
				for _, ev := range evs {
					if _, is := ev.(vaxis.Redraw); is {
						redraw = true
					}
				}
				if !redraw {
					return what + ": in-band resize report produced no Redraw event"
				}
			} else {
				s.Vx.Resize()
			}
			// picks up the new size; the application then redraws
			if f.ByRefresh {
				s.Vx.Refresh()
			} else {
				s.Vx.Render()
			}
			if same {
				// not a size change: this was an ordinary Render
				s.Drain()
				break
			}
			evs := s.Drain()
			got := false
			for _, ev := range evs {
				if rs, ok := ev.(vaxis.Resize); ok && rs.Cols == f.Cols && rs.Rows == f.Rows {
					got = true
				}
			}
			if !got && (f.Cols != m.Cols || f.Rows != m.Rows) {
				return fmt.Sprintf("%s: no Resize event for %dx%d", what, f.Cols, f.Rows)
			}
			w, h := s.Vx.Window().Size()
			if w != f.Cols || h != f.Rows {
				return fmt.Sprintf("%s: Window().Size() = %dx%d after resize to %dx%d", what, w, h, f.Cols, f.Rows)
			}
			if f.Cols != m.Cols || f.Rows != m.Rows {
				m = model.NewMirror(f.Cols, f.Rows)
			}
			// keep the cursor request inside the new screen
			if cw.Col >= f.Cols || cw.Row >= f.Rows {
				cw.Visible = false
				s.Vx.HideCursor()
			}
			continue // nothing is drawn until the next frame
		}
		out := s.TTY.TakeOut()
		if msg := checkFrame(s, tc, m, cw, what); msg != "" {
			if len(out) > 500 {
				out = out[:500]
			}
			return fmt.Sprintf("%s; bytes of this frame: %q; terminal row: %s", msg, out, dumpRows(s))
		}
	}
	return ""
}

func dumpRows(s *vxdrive.Session) string {
	s.Term.Lock()
	defer s.Term.Unlock()
	out := ""
	for r := 0; r < s.Term.Rows && r < 4; r++ {
		out += "[" + model.DumpRow(s.Term, r) + "]"
	}
	return out
}

func TestHistories(t *testing.T) {
	const sub = "histories"
	n := harness.PerShard(harness.Scale(60_000, 3_000_000))
	harness.Check(t, sub, n, func(rt *rapid.T) frames.Case {
		c := frames.GenCase(rt)
		frames.Classify(sub, c)
		return c
	}, run)
}

// ---------------------------------------------------------------------------
// bounded-exhaustive: every ordered pair of rows on a 1x4 screen

var pairAlphabet = []model.CellSpec{
	{},
	{G: "a"},
	{G: "b", Style: model.StyleSpec{Fg: gen.Index(1), Attr: 2}},
	{G: "宽"},
	{G: "世", Style: model.StyleSpec{Bg: gen.Index(4), Link: "https://a.example/"}},
}

func rowsOver(cols int) [][]model.CellSpec {
	var out [][]model.CellSpec
	var rec func(prefix []model.CellSpec)
	rec = func(prefix []model.CellSpec) {
		if len(prefix) == cols {
			out = append(out, append([]model.CellSpec{}, prefix...))
			return
		}
		for _, a := range pairAlphabet {
			rec(append(prefix, a))
		}
	}
	rec(nil)
	return out
}

type PairCase struct {
	// Prev are rows rendered (refresh, render, refresh, render …) before the
	// pair, when the failure needs the history of the enumeration.
	Prev [][]model.CellSpec `json:"prev,omitempty"`
	A, B []model.CellSpec
	Caps refterm.Caps
}

func runPair(pc PairCase) string {
	cols := len(pc.A)
	s, err := vxdrive.Start(cols, 1, pc.Caps, vxdrive.Opts{})
	if err != nil {
		return "vaxis.New failed: " + err.Error()
	}
	defer s.Close(10 * time.Second)
	for i := 0; i+1 < len(pc.Prev); i += 2 {
		pairOn(s, PairCase{A: pc.Prev[i], B: pc.Prev[i+1], Caps: pc.Caps})
	}
	return pairOn(s, pc)
}

func pairOn(s *vxdrive.Session, pc PairCase) string {
	tc := model.TermConfig{Caps: pc.Caps}
	cols := len(pc.A)
	m := model.NewMirror(cols, 1)
	for i, row := range [][]model.CellSpec{pc.A, pc.B} {
		for c, cell := range row {
			m.Set(c, 0, cell)
			s.Vx.Window().SetCell(c, 0, cell.Vaxis())
		}
		if _, ov := tc.Expected(m); ov > 0 {
			return ""
		}
		what := "second frame (render)"
		if i == 0 {
			s.Vx.Refresh()
			what = "first frame (refresh)"
		} else {
			s.Vx.Render()
		}
		if msg := checkFrame(s, tc, m, cursorWant{}, what); msg != "" {
			return msg
		}
	}
	return ""
}

func TestRowPairs(t *testing.T) {
	if harness.ReplayPath() != "" {
		t.Skip()
	}
	const sub = "rowpairs"
	cols := harness.Scale(4, 5)
	rows := rowsOver(cols)
	tc := model.TermConfig{}
	var valid [][]model.CellSpec
	for _, r := range rows {
		m := model.NewMirror(cols, 1)
		for c, cell := range r {
			m.Set(c, 0, cell)
		}
		if _, ov := tc.Expected(m); ov == 0 {
			valid = append(valid, r)
		}
	}
	s, err := vxdrive.Start(cols, 1, refterm.Caps{}, vxdrive.Opts{})
	if err != nil {
		t.Fatal(err)
	}
	defer s.Close(10 * time.Second)
	fails := 0
	idx := 0
	var hist [][]model.CellSpec
	for _, a := range valid {
		for _, b := range valid {
			idx++
			if !harness.Mine(idx) || fails > 2 {
				continue
			}
			pc := PairCase{A: a, B: b}
			harness.R.Eval(sub)
			harness.R.Nontrivial(sub, idx)
			if idx%5000 == 1 {
				harness.R.Sample(sub, pc)
			}
			if msg := pairOn(s, pc); msg != "" {
				// confirm on a fresh session so the replay file is self-contained
				fails++
				if m2 := runPair(pc); m2 != "" {
					harness.Fail(t, sub, m2, pc)
				} else {
					pc.Prev = hist
					if m3 := runPair(pc); m3 != "" {
						harness.Fail(t, sub, m3+" (after the preceding pairs of the enumeration)", pc)
					} else {
						harness.Fail(t, sub, msg+" (only within the whole enumeration history; the replay file may not reproduce it)", pc)
					}
				}
				s.Drain()
			}
			hist = append(hist, a, b)
			if len(hist) > 6 {
				hist = hist[len(hist)-6:]
			}
		}
		s.Drain()
	}
	if fails == 0 {
		harness.R.Exhaustive(sub)
	}
}

func TestReplay(t *testing.T) {
	harness.ReplayAll(t, map[string]harness.Runner{
		"histories": harness.Decode(run),
		"rowpairs":  harness.Decode(runPair),
	})
}
