package c01

import (
	"fmt"
	"testing"
	"time"

	vaxis "git.sr.ht/~rockorager/vaxis"
	"pgregory.net/rapid"

	"verif/internal/gen"
	"verif/internal/harness"
	"verif/internal/model"
	"verif/internal/refterm"
	"verif/internal/vxdrive"
	"verif/internal/widthtab"
)

func TestMain(m *testing.M) { harness.Main(m, "C01") }

type Op struct {
	Kind  string          `json:"k"` // clear fill set style print show hide
	Col   int             `json:"c,omitempty"`
	Row   int             `json:"r,omitempty"`
	Cell  model.CellSpec  `json:"cell,omitempty"`
	Text  []string        `json:"text,omitempty"` // print: graphemes
	Style model.StyleSpec `json:"style,omitempty"`
	Shape int             `json:"shape,omitempty"`
}

type Scrib struct {
	Row, Col int
	G        string
	W        int
}

type Frame struct {
	Ops      []Op    `json:"ops"`
	End      string  `json:"end"` // render | refresh | resize
	Cols     int     `json:"cols,omitempty"`
	Rows     int     `json:"rows,omitempty"`
	Scribble []Scrib `json:"scribble,omitempty"`
}

type Case struct {
	Cols   int          `json:"cols"`
	Rows   int          `json:"rows"`
	Caps   refterm.Caps `json:"caps"`
	Opts   vxdrive.Opts `json:"opts"`
	Frames []Frame      `json:"frames"`
}

type cursorWant = model.CursorWant

// applyMirror applies one op to the harness mirror.
func applyMirror(m *model.Mirror, cw *cursorWant, op Op, method widthtab.Method) {
	switch op.Kind {
	case "clear":
		m.Clear()
	case "fill":
		m.Fill(op.Cell)
	case "set":
		m.Set(op.Col, op.Row, op.Cell)
	case "style":
		m.SetStyle(op.Col, op.Row, op.Style)
	case "print":
		col := op.Col
		for _, g := range op.Text {
			w, _ := widthtab.Width(g, method)
			m.Set(col, op.Row, model.CellSpec{G: g, W: w, Style: op.Style})
			col += w
		}
	case "show":
		*cw = cursorWant{Visible: true, Col: op.Col, Row: op.Row, Shape: op.Shape}
	case "hide":
		cw.Visible = false
	}
}

func applyVaxis(vx *vaxis.Vaxis, op Op) {
	win := vx.Window()
	switch op.Kind {
	case "clear":
		win.Clear()
	case "fill":
		win.Fill(op.Cell.Vaxis())
	case "set":
		win.SetCell(op.Col, op.Row, op.Cell.Vaxis())
	case "style":
		win.SetStyle(op.Col, op.Row, op.Style.Vaxis())
	case "print":
		text := ""
		for _, g := range op.Text {
			text += g
		}
		w, _ := win.Size()
		win.New(op.Col, op.Row, w-op.Col, 1).Print(vaxis.Segment{Text: text, Style: op.Style.Vaxis()})
	case "show":
		vx.ShowCursor(op.Col, op.Row, vaxis.CursorStyle(op.Shape))
	case "hide":
		vx.HideCursor()
	}
}

func checkFrame(s *vxdrive.Session, tc model.TermConfig, m *model.Mirror, cw cursorWant, what string) string {
	return model.CheckDisplay(s.Term, tc, m, cw, what)
}

var run = harness.Confirm(runOnce, 2)

func runOnce(c Case) string {
	s, err := vxdrive.Start(c.Cols, c.Rows, c.Caps, c.Opts)
	if err != nil {
		return "vaxis.New failed: " + err.Error()
	}
	defer func() {
		if !s.Close(10 * time.Second) {
			harness.R.Label("run", "close-timeout")
		}
	}()
	if _, ok := s.Sync(10 * time.Second); !ok {
		return "input loop did not deliver a focus report after start-up"
	}
	s.Drain()
	s.TTY.Capture = true
	tc := model.TermConfig{Caps: c.Caps}
	method := tc.Method()
	m := model.NewMirror(c.Cols, c.Rows)
	cw := cursorWant{}
	for fi, f := range c.Frames {
		for _, op := range f.Ops {
			applyMirror(m, &cw, op, method)
			applyVaxis(s.Vx, op)
		}
		what := fmt.Sprintf("frame %d (%s)", fi, f.End)
		s.TTY.TakeOut()
		switch f.End {
		case "render":
			s.Vx.Render()
		case "refresh":
			for _, sc := range f.Scribble {
				s.Term.Scribble(sc.Row, sc.Col, sc.G, sc.W, refterm.Style{Fg: refterm.Color{Kind: refterm.ColIndex, V: 1}, Attrs: refterm.ABold})
			}
			s.Vx.Refresh()
		case "resize":
			same := f.Cols == m.Cols && f.Rows == m.Rows
			if !same {
				for _, sc := range f.Scribble {
					s.Term.Scribble(sc.Row, sc.Col, sc.G, sc.W, refterm.Style{Bg: refterm.Color{Kind: refterm.ColIndex, V: 2}})
				}
			}
			s.TTY.SetSize(f.Cols, f.Rows)
			if c.Caps.InBand2048 {
				s.Term.NotifyResize()
				evs, ok := s.Sync(10 * time.Second)
				if !ok {
					return what + ": input loop stopped delivering events after an in-band resize report"
				}
				redraw := false
				for _, ev := range evs {
					if _, is := ev.(vaxis.Redraw); is {
						redraw = true
					}
				}
				if !redraw {
					return what + ": in-band resize report produced no Redraw event"
				}
			} else {
				s.Vx.Resize()
			}
			s.Vx.Render() // picks up the new size; the application then redraws
			if same {
				// not a size change: this was an ordinary Render
				s.Drain()
				break
			}
			evs := s.Drain()
			got := false
			for _, ev := range evs {
				if rs, ok := ev.(vaxis.Resize); ok && rs.Cols == f.Cols && rs.Rows == f.Rows {
					got = true
				}
			}
			if !got && (f.Cols != m.Cols || f.Rows != m.Rows) {
				return fmt.Sprintf("%s: no Resize event for %dx%d", what, f.Cols, f.Rows)
			}
			w, h := s.Vx.Window().Size()
			if w != f.Cols || h != f.Rows {
				return fmt.Sprintf("%s: Window().Size() = %dx%d after resize to %dx%d", what, w, h, f.Cols, f.Rows)
			}
			if f.Cols != m.Cols || f.Rows != m.Rows {
				m = model.NewMirror(f.Cols, f.Rows)
			}
			// keep the cursor request inside the new screen
			if cw.Col >= f.Cols || cw.Row >= f.Rows {
				cw.Visible = false
				s.Vx.HideCursor()
			}
			continue // nothing is drawn until the next frame
		}
		out := s.TTY.TakeOut()
		if msg := checkFrame(s, tc, m, cw, what); msg != "" {
			if len(out) > 500 {
				out = out[:500]
			}
			return fmt.Sprintf("%s; bytes of this frame: %q; terminal row: %s", msg, out, dumpRows(s))
		}
	}
	return ""
}

func dumpRows(s *vxdrive.Session) string {
	s.Term.Lock()
	defer s.Term.Unlock()
	out := ""
	for r := 0; r < s.Term.Rows && r < 4; r++ {
		out += "[" + model.DumpRow(s.Term, r) + "]"
	}
	return out
}

// ---------------------------------------------------------------------------
// generator

func genOps(rt *rapid.T, m *model.Mirror, cw *cursorWant, tc model.TermConfig, styles []model.StyleSpec, n int) []Op {
	method := tc.Method()
	var ops []Op
	for i := 0; i < n; i++ {
		var op Op
		switch rapid.IntRange(0, 15).Draw(rt, "op") {
		case 0:
			op = Op{Kind: "clear"}
		case 1:
			cell := gen.Cell(rt, styles, method, m.Cols, tc.Caps.ExplicitWidth)
			op = Op{Kind: "fill", Cell: cell}
		case 2, 3, 4, 5, 6, 7, 8:
			col := rapid.IntRange(0, m.Cols-1).Draw(rt, "col")
			row := rapid.IntRange(0, m.Rows-1).Draw(rt, "row")
			op = Op{Kind: "set", Col: col, Row: row, Cell: gen.Cell(rt, styles, method, m.Cols-col, tc.Caps.ExplicitWidth)}
		case 9, 10:
			op = Op{Kind: "style", Col: rapid.IntRange(0, m.Cols-1).Draw(rt, "col"), Row: rapid.IntRange(0, m.Rows-1).Draw(rt, "row"),
				Style: rapid.SampledFrom(styles).Draw(rt, "st")}
		case 11, 12:
			col := rapid.IntRange(0, m.Cols-1).Draw(rt, "col")
			row := rapid.IntRange(0, m.Rows-1).Draw(rt, "row")
			room := m.Cols - col
			var text []string
			k := rapid.IntRange(1, 6).Draw(rt, "nchars")
			for j := 0; j < k; j++ {
				g := gen.Grapheme(rt, "pg")
				if e, _ := widthtab.Lookup(g); e.Class == "zero" && j > 0 {
					// a combining mark or ZWJ would merge with the
					// previous cluster: the text would not be the
					// clusters the mirror records
					continue
				}
				w, _ := widthtab.Width(g, method)
				if w > room {
					break
				}
				room -= w
				text = append(text, g)
			}
			if len(text) == 0 {
				continue
			}
			op = Op{Kind: "print", Col: col, Row: row, Text: text, Style: rapid.SampledFrom(styles).Draw(rt, "st")}
		case 13, 14:
			op = Op{Kind: "show", Col: rapid.IntRange(0, m.Cols-1).Draw(rt, "ccol"), Row: rapid.IntRange(0, m.Rows-1).Draw(rt, "crow"),
				Shape: rapid.IntRange(0, 6).Draw(rt, "shape")}
		case 15:
			op = Op{Kind: "hide"}
		}
		// keep the history inside the domain: no glyph across the right edge
		trial := cloneMirror(m)
		tcw := *cw
		applyMirror(trial, &tcw, op, method)
		if _, overflow := tc.Expected(trial); overflow > 0 {
			harness.R.Excluded("histories", "op would put a wide glyph across the right edge")
			continue
		}
		applyMirror(m, cw, op, method)
		ops = append(ops, op)
	}
	return ops
}

func cloneMirror(m *model.Mirror) *model.Mirror {
	n := model.NewMirror(m.Cols, m.Rows)
	for r := range m.Cells {
		copy(n.Cells[r], m.Cells[r])
	}
	return n
}

var scribbleGlyphs = []struct {
	g string
	w int
}{{"X", 1}, {"#", 1}, {"宽", 2}, {"", 1}}

func genScribble(rt *rapid.T, cols, rows int) []Scrib {
	var out []Scrib
	n := rapid.IntRange(0, 5).Draw(rt, "nscribble")
	for i := 0; i < n; i++ {
		sg := rapid.SampledFrom(scribbleGlyphs).Draw(rt, "sg")
		if sg.w > cols {
			continue
		}
		out = append(out, Scrib{Row: rapid.IntRange(0, rows-1).Draw(rt, "srow"), Col: rapid.IntRange(0, cols-sg.w).Draw(rt, "scol"), G: sg.g, W: sg.w})
	}
	return out
}

func genCase(rt *rapid.T) Case {
	c := Case{}
	if rapid.IntRange(0, 19).Draw(rt, "big") == 0 {
		c.Cols, c.Rows = rapid.IntRange(13, 40).Draw(rt, "cols"), rapid.IntRange(1, 12).Draw(rt, "rows")
	} else {
		c.Cols, c.Rows = rapid.IntRange(1, 12).Draw(rt, "cols"), rapid.IntRange(1, 6).Draw(rt, "rows")
	}
	c.Caps = gen.Caps(rt)
	if c.Cols == 1 && c.Caps.ExplicitWidth {
		// the explicit-width probe (print one cell, ask for the column)
		// cannot be answered on a one-column screen: not advertisable
		c.Caps.ExplicitWidth = false
		harness.R.Excluded("histories", "explicit width on a 1-column terminal")
	}
	c.Opts = vxdrive.Opts{DisableKitty: rapid.Bool().Draw(rt, "nokitty"), DisableMouse: rapid.Bool().Draw(rt, "nomouse")}
	tc := model.TermConfig{Caps: c.Caps}
	styles := gen.Styles(rt, rapid.IntRange(1, 4).Draw(rt, "nstyles"))
	m := model.NewMirror(c.Cols, c.Rows)
	cw := cursorWant{}
	nf := rapid.IntRange(1, harness.Scale(6, 12)).Draw(rt, "nframes")
	for i := 0; i < nf; i++ {
		f := Frame{}
		f.Ops = genOps(rt, m, &cw, tc, styles, rapid.IntRange(0, 8).Draw(rt, "nops"))
		switch rapid.IntRange(0, 9).Draw(rt, "end") {
		case 0, 1:
			f.End = "refresh"
			f.Scribble = genScribble(rt, m.Cols, m.Rows)
		case 2:
			f.End = "resize"
			f.Scribble = genScribble(rt, m.Cols, m.Rows)
			f.Cols, f.Rows = rapid.IntRange(1, 12).Draw(rt, "ncols"), rapid.IntRange(1, 6).Draw(rt, "nrows")
			// drawing done in this frame is discarded by the resize
			if f.Cols != m.Cols || f.Rows != m.Rows {
				m = model.NewMirror(f.Cols, f.Rows)
			}
			if cw.Col >= f.Cols || cw.Row >= f.Rows {
				cw.Visible = false
			}
		default:
			f.End = "render"
		}
		c.Frames = append(c.Frames, f)
	}
	return c
}

// classify computes labels / non-triviality by replaying the mirror.
func classify(sub string, c Case) {
	tc := model.TermConfig{Caps: c.Caps}
	method := tc.Method()
	m := model.NewMirror(c.Cols, c.Rows)
	cw := cursorWant{}
	var prev [][]model.ExpCell
	rendered, rewrites := 0, false
	for _, f := range c.Frames {
		for _, op := range f.Ops {
			applyMirror(m, &cw, op, method)
			harness.R.Label(sub, "op:"+op.Kind)
		}
		harness.R.Label(sub, "end:"+f.End)
		if f.End == "resize" {
			if f.Cols != m.Cols || f.Rows != m.Rows {
				m = model.NewMirror(f.Cols, f.Rows)
			}
			prev = nil
			continue
		}
		rendered++
		exp, _ := tc.Expected(m)
		if prev != nil && len(prev) == len(exp) {
			for r := range exp {
				for col := range exp[r] {
					a, b := prev[r][col], exp[r][col]
					if a.G != b.G || a.W != b.W {
						rewrites = true
						switch {
						case a.W >= 2 && b.W == 1:
							harness.R.Label(sub, "wide->narrow")
						case a.W == 1 && b.W >= 2:
							harness.R.Label(sub, "narrow->wide")
						case a.W == 0 && b.W >= 1:
							harness.R.Label(sub, "covered->lead")
						}
					}
				}
			}
		}
		prev = exp
	}
	if rendered >= 2 && rewrites {
		harness.R.Nontrivial(sub, c)
		harness.R.Label(sub, "nontrivial")
	}
	harness.R.Label(sub, "method:"+method.String())
	harness.R.Sample(sub, c)
}

func TestHistories(t *testing.T) {
	const sub = "histories"
	n := harness.PerShard(harness.Scale(60_000, 3_000_000))
	harness.Check(t, sub, n, func(rt *rapid.T) Case {
		c := genCase(rt)
		classify(sub, c)
		return c
	}, run)
}

// ---------------------------------------------------------------------------
// bounded-exhaustive: every ordered pair of rows on a 1x4 screen

var pairAlphabet = []model.CellSpec{
	{},
	{G: "a"},
	{G: "b", Style: model.StyleSpec{Fg: gen.Index(1), Attr: 2}},
	{G: "宽"},
	{G: "世", Style: model.StyleSpec{Bg: gen.Index(4), Link: "https://a.example/"}},
}

func rowsOver(cols int) [][]model.CellSpec {
	var out [][]model.CellSpec
	var rec func(prefix []model.CellSpec)
	rec = func(prefix []model.CellSpec) {
		if len(prefix) == cols {
			out = append(out, append([]model.CellSpec{}, prefix...))
			return
		}
		for _, a := range pairAlphabet {
			rec(append(prefix, a))
		}
	}
	rec(nil)
	return out
}

type PairCase struct {
	// Prev are rows rendered (refresh, render, refresh, render …) before the
	// pair, when the failure needs the history of the enumeration.
	Prev [][]model.CellSpec `json:"prev,omitempty"`
	A, B []model.CellSpec
	Caps refterm.Caps
}

func runPair(pc PairCase) string {
	cols := len(pc.A)
	s, err := vxdrive.Start(cols, 1, pc.Caps, vxdrive.Opts{})
	if err != nil {
		return "vaxis.New failed: " + err.Error()
	}
	defer s.Close(10 * time.Second)
	for i := 0; i+1 < len(pc.Prev); i += 2 {
		pairOn(s, PairCase{A: pc.Prev[i], B: pc.Prev[i+1], Caps: pc.Caps})
	}
	return pairOn(s, pc)
}

func pairOn(s *vxdrive.Session, pc PairCase) string {
	tc := model.TermConfig{Caps: pc.Caps}
	cols := len(pc.A)
	m := model.NewMirror(cols, 1)
	for i, row := range [][]model.CellSpec{pc.A, pc.B} {
		for c, cell := range row {
			m.Set(c, 0, cell)
			s.Vx.Window().SetCell(c, 0, cell.Vaxis())
		}
		if _, ov := tc.Expected(m); ov > 0 {
			return ""
		}
		what := "second frame (render)"
		if i == 0 {
			s.Vx.Refresh()
			what = "first frame (refresh)"
		} else {
			s.Vx.Render()
		}
		if msg := checkFrame(s, tc, m, cursorWant{}, what); msg != "" {
			return msg
		}
	}
	return ""
}

func TestRowPairs(t *testing.T) {
	if harness.ReplayPath() != "" {
		t.Skip()
	}
	const sub = "rowpairs"
	cols := harness.Scale(4, 5)
	rows := rowsOver(cols)
	tc := model.TermConfig{}
	var valid [][]model.CellSpec
	for _, r := range rows {
		m := model.NewMirror(cols, 1)
		for c, cell := range r {
			m.Set(c, 0, cell)
		}
		if _, ov := tc.Expected(m); ov == 0 {
			valid = append(valid, r)
		}
	}
	s, err := vxdrive.Start(cols, 1, refterm.Caps{}, vxdrive.Opts{})
	if err != nil {
		t.Fatal(err)
	}
	defer s.Close(10 * time.Second)
	fails := 0
	idx := 0
	var hist [][]model.CellSpec
	for _, a := range valid {
		for _, b := range valid {
			idx++
			if !harness.Mine(idx) || fails > 2 {
				continue
			}
			pc := PairCase{A: a, B: b}
			harness.R.Eval(sub)
			harness.R.Nontrivial(sub, idx)
			if idx%5000 == 1 {
				harness.R.Sample(sub, pc)
			}
			if msg := pairOn(s, pc); msg != "" {
				// confirm on a fresh session so the replay file is self-contained
				fails++
				if m2 := runPair(pc); m2 != "" {
					harness.Fail(t, sub, m2, pc)
				} else {
					pc.Prev = hist
					if m3 := runPair(pc); m3 != "" {
						harness.Fail(t, sub, m3+" (after the preceding pairs of the enumeration)", pc)
					} else {
						harness.Fail(t, sub, msg+" (only within the whole enumeration history; the replay file may not reproduce it)", pc)
					}
				}
				s.Drain()
			}
			hist = append(hist, a, b)
			if len(hist) > 6 {
				hist = hist[len(hist)-6:]
			}
		}
		s.Drain()
	}
	if fails == 0 {
		harness.R.Exhaustive(sub)
	}
}

func TestReplay(t *testing.T) {
	harness.ReplayAll(t, map[string]harness.Runner{
		"histories": harness.Decode(run),
		"rowpairs":  harness.Decode(runPair),
	})
}
