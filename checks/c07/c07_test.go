package c07

import (
	"fmt"
	"strings"
	"testing"
	"time"

	"pgregory.net/rapid"

	"verif/internal/gen"
	"verif/internal/harness"
	"verif/internal/model"
	"verif/internal/refterm"
	"verif/internal/vxdrive"
	"verif/internal/widthtab"
)

func TestMain(m *testing.M) { harness.Main(m, "C07") }

type Case struct {
	Cols int          `json:"cols"`
	Rows int          `json:"rows"`
	Caps refterm.Caps `json:"caps"`
	Opts vxdrive.Opts `json:"opts"`
	// Cells of the frame (row-major, may be shorter than the screen)
	Cells []model.CellSpec `json:"cells"`
	// Second frame: indexes of cells to restyle (exercise transitions)
	Restyle []int `json:"restyle,omitempty"`
}

func advertised(c Case, name string) bool {
	k := c.Caps
	switch name {
	case "rgb":
		return k.RGB
	case "styled-underlines":
		return k.Smulx || k.VTE
	case "synchronized-output":
		return k.Sync2026
	case "kitty-keyboard":
		return k.KittyKbd && !c.Opts.DisableKitty
	case "unicode-core":
		return k.Unicode2027 || k.XTVersion == "tmux 3.4"
	case "explicit-width":
		return k.ExplicitWidth
	case "sixel":
		return k.SixelDA1 || k.XTSM
	case "color-scheme-reports":
		return k.Color2031
	case "in-band-resize":
		return k.InBand2048
	case "kitty-graphics":
		return k.KittyGfx
	case "app-id":
		return k.OSC176
	case "osc4":
		return k.OSC4
	case "osc10":
		return k.OSC10
	case "osc11":
		return k.OSC11
	}
	return false
}

func checkVocabulary(c Case, t *refterm.Term) string {
	t.Lock()
	defer t.Unlock()
	for _, ev := range t.Events {
		if ev.Phase == 0 {
			continue
		}
		switch {
		case ev.Class == "baseline" || ev.Class == "query":
		case strings.HasPrefix(ev.Class, "gated:"):
			name := strings.TrimPrefix(ev.Class, "gated:")
			if !advertised(c, name) {
				return fmt.Sprintf("wrote %q, which needs %s, but the terminal did not advertise it", ev.Seq, name)
			}
		default:
			return fmt.Sprintf("wrote %q, which is neither baseline xterm vocabulary nor an advertised feature", ev.Seq)
		}
	}
	return ""
}

var run = harness.Confirm(runOnce, 2)

func runOnce(c Case) string {
	s, err := vxdrive.Start(c.Cols, c.Rows, c.Caps, c.Opts)
	if err != nil {
		return "vaxis.New failed: " + err.Error()
	}
	closed := false
	defer func() {
		if !closed {
			s.Close(10 * time.Second)
		}
	}()
	if _, ok := s.Sync(10 * time.Second); !ok {
		return "input loop did not deliver a focus report after start-up"
	}
	s.Drain()
	vx := s.Vx
	k := c.Caps
	// (a) accessors
	type acc struct {
		name      string
		got, want bool
	}
	for _, a := range []acc{
		{"CanRGB", vx.CanRGB(), k.RGB},
		{"CanSixel", vx.CanSixel(), k.SixelDA1 || k.XTSM},
		{"CanKittyGraphics", vx.CanKittyGraphics(), k.KittyGfx},
		{"CanDisplayGraphics", vx.CanDisplayGraphics(), k.SixelDA1 || k.XTSM || k.KittyGfx},
		{"CanReportColor", vx.CanReportColor(), k.OSC4},
		{"CanReportForegroundColor", vx.CanReportForegroundColor(), k.OSC10},
		{"CanReportBackgroundColor", vx.CanReportBackgroundColor(), k.OSC11},
		{"CanSetAppID", vx.CanSetAppID(), k.OSC176},
		{"CanUnicodeCore", vx.CanUnicodeCore(), k.Unicode2027 || k.XTVersion == "tmux 3.4"},
		{"CanExplicitWidth", vx.CanExplicitWidth(), k.ExplicitWidth},
	} {
		if a.got != a.want {
			return fmt.Sprintf("%s() = %v, but the terminal's replies established %v", a.name, a.got, a.want)
		}
	}
	if id := vx.TerminalID(); id != k.XTVersion {
		return fmt.Sprintf("TerminalID() = %q, terminal identified as %q", id, k.XTVersion)
	}
	// (d) width method
	tc := model.TermConfig{Caps: k}
	method := tc.Method()
	for _, e := range widthtab.Table {
		if got := vx.RenderedWidth(e.G); got != e.W[method] {
			return fmt.Sprintf("RenderedWidth(%q) = %d, want %d under the %v method these capabilities imply", e.G, got, e.W[method], method)
		}
	}
	// (c) frames through the C01 oracle
	m := model.NewMirror(c.Cols, c.Rows)
	i := 0
	for _, cell := range c.Cells {
		if i >= c.Cols*c.Rows {
			break
		}
		col, row := i%c.Cols, i/c.Cols
		w := cell.W
		if w == 0 && cell.G != "" {
			w, _ = widthtab.Width(cell.G, method)
		}
		if w < 1 {
			w = 1
		}
		if col+w > c.Cols {
			i += c.Cols - col // does not fit: start of next row
			continue
		}
		m.Set(col, row, cell)
		vx.Window().SetCell(col, row, cell.Vaxis())
		i += w
	}
	vx.Render()
	if msg := model.CheckDisplay(s.Term, tc, m, model.CursorWant{}, "frame 1"); msg != "" {
		return msg
	}
	for _, idx := range c.Restyle {
		col, row := idx%c.Cols, (idx/c.Cols)%c.Rows
		st := m.Cells[row][col].Style
		st.Attr ^= 2 // toggle bold
		st.UlStyle = (st.UlStyle + 1) % 6
		m.SetStyle(col, row, st)
		vx.Window().SetStyle(col, row, st.Vaxis())
	}
	vx.ShowCursor(0, 0, 4)
	vx.Render()
	if msg := model.CheckDisplay(s.Term, tc, m, model.CursorWant{Visible: true, Shape: 4}, "frame 2"); msg != "" {
		return msg
	}
	closed = true
	if !s.Close(10 * time.Second) {
		return "Close did not return"
	}
	// (b) vocabulary
	return checkVocabulary(c, s.Term)
}

var richCells = func() []model.CellSpec {
	link := "https://a.example/"
	return []model.CellSpec{
		{G: "a", Style: model.StyleSpec{Fg: gen.RGB(1, 2, 3)}},
		{G: "b", Style: model.StyleSpec{Bg: gen.RGB(250, 128, 7), Attr: 2}},
		{G: "宽", Style: model.StyleSpec{Fg: gen.Index(3), UlStyle: 3, Ul: gen.RGB(9, 9, 200)}},
		{G: "c", Style: model.StyleSpec{UlStyle: 1, Ul: gen.Index(200)}},
		{G: "👩‍🚀"},
		{G: "❤️", Style: model.StyleSpec{Attr: 4 | 16}},
		{G: "d", Style: model.StyleSpec{UlStyle: 5, Link: link, LinkP: "id=7"}},
		{G: "👋🏿", Style: model.StyleSpec{Fg: gen.Index(12), Bg: gen.Index(100)}},
		{G: "🇺🇸"},
		{G: "é"},
		{},
		{G: "e", W: 1, Style: model.StyleSpec{Fg: gen.RGB(255, 255, 255), Bg: gen.RGB(0, 0, 0), Attr: 254}},
	}
}()

func label(sub string, c Case) {
	mask := c.Caps.Mask()
	if mask != 0 && mask != 1<<refterm.NumCaps-1 {
		harness.R.Nontrivial(sub, c)
	}
	harness.R.Label(sub, "xtversion:"+c.Caps.XTVersion)
	harness.R.Sample(sub, c)
}

func capCase(mask uint32, xtv string, o vxdrive.Opts) Case {
	caps := refterm.FromMask(mask)
	caps.XTVersion = xtv
	caps.UserCursorStyle = int(mask % 7)
	caps.DECRPMAbsent = int(mask>>4+mask) % 3
	caps.TcapNoValue = (mask>>2+mask)%4 == 1
	if caps.OSC176 {
		caps.AppID = "orig"
	}
	return Case{Cols: 24, Rows: 2, Caps: caps, Opts: o, Cells: richCells, Restyle: []int{0, 2, 3, 7}}
}

// TestCapabilitySets sweeps the advertised capability sets.
func TestCapabilitySets(t *testing.T) {
	if harness.ReplayPath() != "" {
		t.Skip()
	}
	const sub = "capsets"
	const n = refterm.NumCaps
	full := uint32(1<<n - 1)
	var masks []uint32
	if harness.Thorough() {
		for m := uint32(0); m <= full; m++ {
			masks = append(masks, m)
		}
	} else {
		masks = append(masks, 0, full)
		for i := 0; i < n; i++ {
			masks = append(masks, 1<<uint(i), full&^(1<<uint(i)))
			for j := i + 1; j < n; j++ {
				masks = append(masks, 1<<uint(i)|1<<uint(j))
			}
		}
	}
	ids := []string{"", "kitty(0.31.0)", "tmux 3.4", "foot(1.16.2)"}
	fails := 0
	for idx, mask := range masks {
		if !harness.Mine(idx) || fails > 2 {
			continue
		}
		xtv := ids[idx%len(ids)]
		o := vxdrive.Opts{DisableKitty: idx%5 == 0, DisableMouse: idx%3 == 0}
		c := capCase(mask, xtv, o)
		harness.R.Eval(sub)
		label(sub, c)
		if msg := run(c); msg != "" {
			fails++
			harness.Fail(t, sub, msg, c)
		}
	}
	if fails == 0 && harness.Thorough() {
		harness.R.Exhaustive(sub)
	}
}

func TestRandomSessions(t *testing.T) {
	const sub = "sessions"
	n := harness.PerShard(harness.Scale(30_000, 1_000_000))
	harness.Check(t, sub, n, func(rt *rapid.T) Case {
		c := Case{Cols: rapid.IntRange(2, 30).Draw(rt, "cols"), Rows: rapid.IntRange(1, 4).Draw(rt, "rows")}
		c.Caps = gen.Caps(rt)
		c.Opts = vxdrive.Opts{DisableKitty: rapid.Bool().Draw(rt, "nokitty"), DisableMouse: rapid.Bool().Draw(rt, "nomouse"),
			CSIu: rapid.SampledFrom([]int{0, 1, 3, 31}).Draw(rt, "csiu")}
		tc := model.TermConfig{Caps: c.Caps}
		styles := gen.Styles(rt, 4)
		k := rapid.IntRange(1, 20).Draw(rt, "ncells")
		for i := 0; i < k; i++ {
			c.Cells = append(c.Cells, gen.Cell(rt, styles, tc.Method(), 4, c.Caps.ExplicitWidth))
		}
		c.Restyle = rapid.SliceOfN(rapid.IntRange(0, 60), 0, 4).Draw(rt, "restyle")
		label(sub, c)
		return c
	}, run)
}

// ---------------------------------------------------------------------------
// colour fallback sweep

type ColorCase struct {
	Colors []uint32 `json:"colors"` // 0xRRGGBB
	Chan   int      `json:"chan"`   // 0 fg, 1 bg, 2 underline colour
}

func runColors(cc ColorCase) string {
	cols := 128
	rows := (len(cc.Colors) + cols - 1) / cols
	if rows < 1 {
		rows = 1
	}
	caps := refterm.Caps{Smulx: true}
	s, err := vxdrive.Start(cols, rows, caps, vxdrive.Opts{DisableMouse: true})
	if err != nil {
		return "vaxis.New failed: " + err.Error()
	}
	defer s.Close(10 * time.Second)
	for i, rgb := range cc.Colors {
		st := model.StyleSpec{}
		v := gen.RGB(int(rgb>>16), int(rgb>>8), int(rgb))
		switch cc.Chan {
		case 0:
			st.Fg = v
		case 1:
			st.Bg = v
		default:
			st.Ul, st.UlStyle = v, 1
		}
		s.Vx.Window().SetCell(i%cols, i/cols, model.CellSpec{G: "x", Style: st}.Vaxis())
	}
	s.Vx.Render()
	s.Term.Lock()
	defer s.Term.Unlock()
	for i, rgb := range cc.Colors {
		cell := s.Term.Cell(i/cols, i%cols)
		var got refterm.Color
		switch cc.Chan {
		case 0:
			got = cell.Style.Fg
		case 1:
			got = cell.Style.Bg
		default:
			got = cell.Style.Ul
		}
		want := model.Nearest(rgb)
		ok := got.Kind == refterm.ColIndex
		if ok {
			ok = false
			for _, w := range want {
				if uint32(w) == got.V {
					ok = true
				}
			}
		}
		if !ok {
			return fmt.Sprintf("direct colour #%06x (channel %d) without RGB support was sent as %v; nearest palette entries (16-255, weighted distance) are %v", rgb, cc.Chan, got, want)
		}
	}
	return ""
}

func boundaryColors() []uint32 {
	seen := map[uint32]bool{}
	var out []uint32
	add := func(r, g, b int) {
		if r < 0 || g < 0 || b < 0 || r > 255 || g > 255 || b > 255 {
			return
		}
		v := uint32(r)<<16 | uint32(g)<<8 | uint32(b)
		if !seen[v] {
			seen[v] = true
			out = append(out, v)
		}
	}
	for i := 16; i < 256; i++ {
		r, g, b := refterm.Palette(i)
		for _, d := range [][3]int{{0, 0, 0}, {1, 0, 0}, {-1, 0, 0}, {0, 1, 0}, {0, -1, 0}, {0, 0, 1}, {0, 0, -1}, {1, 1, 1}, {-1, -1, -1}} {
			add(int(r)+d[0], int(g)+d[1], int(b)+d[2])
		}
	}
	// midpoints between neighbouring cube levels and grey steps, +-1
	lv := []int{0, 0x5f, 0x87, 0xaf, 0xd7, 0xff}
	var mids []int
	for i := 0; i+1 < len(lv); i++ {
		m := (lv[i] + lv[i+1]) / 2
		mids = append(mids, m-1, m, m+1, m+2)
	}
	for _, r := range mids {
		for _, g := range append(mids, lv...) {
			for _, b := range lv {
				add(r, g, b)
				add(b, r, g)
				add(g, b, r)
			}
		}
	}
	for v := 0; v < 256; v++ {
		add(v, v, v)
	}
	return out
}

func TestColorFallback(t *testing.T) {
	if harness.ReplayPath() != "" {
		t.Skip()
	}
	const sub = "colors"
	var colors []uint32
	if harness.Thorough() {
		lo, hi := harness.MyRange(1 << 24)
		for v := lo; v < hi; v++ {
			colors = append(colors, uint32(v))
		}
	} else {
		all := boundaryColors()
		// deterministic pseudo-random extra colours from the seed
		x := uint32(harness.Seed())*2654435761 + 12345
		for i := 0; i < 40_000; i++ {
			x = x*1664525 + 1013904223
			all = append(all, x>>8)
		}
		for i, v := range all {
			if harness.Mine(i) {
				colors = append(colors, v)
			}
		}
	}
	const batch = 128 * 64
	fails := 0
	for off := 0; off < len(colors) && fails == 0; off += batch {
		end := off + batch
		if end > len(colors) {
			end = len(colors)
		}
		cc := ColorCase{Colors: colors[off:end], Chan: (off / batch) % 3}
		if harness.Thorough() {
			cc.Chan = 1
		}
		harness.R.EvalN(sub, int64(len(cc.Colors)))
		for _, v := range cc.Colors {
			harness.R.Nontrivial(sub, fmt.Sprintf("%06x", v))
		}
		if off == 0 {
			harness.R.Sample(sub, ColorCase{Colors: cc.Colors[:8], Chan: cc.Chan})
		}
		if msg := runColors(cc); msg != "" {
			fails++
			// shrink to the single colour named in the message
			for _, v := range cc.Colors {
				one := ColorCase{Colors: []uint32{v}, Chan: cc.Chan}
				if m2 := runColors(one); m2 != "" {
					harness.Fail(t, sub, m2, one)
					return
				}
			}
			harness.Fail(t, sub, msg, cc)
		}
	}
	if fails == 0 && harness.Thorough() {
		harness.R.Exhaustive(sub)
	}
}

func TestReplay(t *testing.T) {
	harness.ReplayAll(t, map[string]harness.Runner{
		"capsets":  harness.Decode(run),
		"sessions": harness.Decode(run),
		"colors":   harness.Decode(runColors),
	})
}
