package c15

import (
	"bytes"
	"fmt"
	"sort"
	"strings"
	"sync"
	"testing"
	"time"

	vaxis "git.sr.ht/~rockorager/vaxis"
	"git.sr.ht/~rockorager/vaxis/vxfw"
	"pgregory.net/rapid"

	"verif/internal/appdrive"
	"verif/internal/harness"
	"verif/internal/refterm"
)

func TestMain(m *testing.M) { harness.Main(m, "C15") }

const (
	screenCols = 16
	screenRows = 10
	wait       = 20 * time.Second
)

// ---------------------------------------------------------------------------
// case description

type Cmd struct {
	K   string `json:"k"` // consume redraw refresh quit focus batch slice nil
	ID  int    `json:"id,omitempty"`
	Sub []Cmd  `json:"sub,omitempty"`
}

type Rule struct {
	Ev    string `json:"ev"`    // key:a key:b custom mouse focusin focusout enter leave
	Phase int    `json:"phase"` // -1 capture, 0 target, 1 bubble
	Cmds  []Cmd  `json:"cmds"`
}

type Node struct {
	ID       int    `json:"id"`
	Col      int    `json:"col"`
	Row      int    `json:"row"`
	W        int    `json:"w"`
	H        int    `json:"h"`
	Z        int    `json:"z"`
	Captures bool   `json:"captures,omitempty"`
	Rules    []Rule `json:"rules,omitempty"`
	Kids     []Node `json:"kids,omitempty"`
	// Wrap > 0: the widget returns its surface wrapped in a second surface
	// of its own, Wrap columns wider (what list.Dynamic does for the item
	// next to its cursor gutter). The widget is still one widget
	Wrap int `json:"wrap,omitempty"`
}

// width of the node as its parent sees it
func (n *Node) outerW() int { return n.W + n.Wrap }

type Op struct {
	K   string `json:"k"` // key custom mouse tfocusin tfocusout frame
	Key string `json:"key,omitempty"`
	Col int    `json:"col,omitempty"`
	Row int    `json:"row,omitempty"`
	Btn string `json:"btn,omitempty"` // motion press release
	// NoSync: the next op's event is posted right behind this one, without
	// a harness sentinel in between
	NoSync bool `json:"nosync,omitempty"`
}

type RouteCase struct {
	Tree Node `json:"tree"`
	Ops  []Op `json:"ops"`
}

type Entry struct {
	W     int
	Ev    string
	Phase int
}

func (e Entry) String() string {
	ph := map[int]string{-1: "capture", 0: "target", 1: "bubble"}[e.Phase]
	return fmt.Sprintf("%d:%s/%s", e.W, e.Ev, ph)
}

func entries(es []Entry) string {
	var parts []string
	for _, e := range es {
		parts = append(parts, e.String())
	}
	return "[" + strings.Join(parts, " ") + "]"
}

// ---------------------------------------------------------------------------
// instrumented widgets

type customEvent struct{}

func evName(ev vaxis.Event) string {
	switch ev := ev.(type) {
	case vaxis.Key:
		return "key:" + string(ev.Keycode)
	case vaxis.Mouse:
		return "mouse"
	case customEvent:
		return "custom"
	case vaxis.FocusIn:
		return "focusin"
	case vaxis.FocusOut:
		return "focusout"
	case vxfw.MouseEnter:
		return "enter"
	case vxfw.MouseLeave:
		return "leave"
	}
	return ""
}

type env struct {
	mu      sync.Mutex
	log     []Entry
	widgets map[int]vxfw.Widget
	fill    string
}

func (e *env) record(id int, ev vaxis.Event, phase int) string {
	name := evName(ev)
	if name == "" {
		return ""
	}
	e.mu.Lock()
	e.log = append(e.log, Entry{id, name, phase})
	e.mu.Unlock()
	return name
}

func (e *env) take() []Entry {
	e.mu.Lock()
	defer e.mu.Unlock()
	l := e.log
	e.log = nil
	return l
}

func (e *env) command(cmds []Cmd) vxfw.Command {
	one := func(c Cmd) vxfw.Command {
		switch c.K {
		case "consume":
			return vxfw.ConsumeEventCmd{}
		case "redraw":
			return vxfw.RedrawCmd{}
		case "refresh":
			return vxfw.RefreshCmd{}
		case "quit":
			return vxfw.QuitCmd{}
		case "focus":
			return vxfw.FocusWidgetCmd(e.widgets[c.ID])
		case "batch":
			var b vxfw.BatchCmd
			for _, s := range c.Sub {
				b = append(b, e.command([]Cmd{s}))
			}
			return b
		case "slice":
			var b []vxfw.Command
			for _, s := range c.Sub {
				b = append(b, e.command([]Cmd{s}))
			}
			return b
		}
		return nil
	}
	switch len(cmds) {
	case 0:
		return nil
	case 1:
		return one(cmds[0])
	}
	var b vxfw.BatchCmd
	for _, c := range cmds {
		b = append(b, one(c))
	}
	return b
}

type node struct {
	spec *Node
	env  *env
	self vxfw.Widget
	kids []*node
}

func (n *node) rule(ev string, phase int) []Cmd {
	for _, r := range n.spec.Rules {
		if r.Ev == ev && r.Phase == phase {
			return r.Cmds
		}
	}
	return nil
}

func (n *node) HandleEvent(ev vaxis.Event, ph vxfw.EventPhase) (vxfw.Command, error) {
	name := n.env.record(n.spec.ID, ev, int(ph)-int(vxfw.TargetPhase))
	if name == "" {
		return nil, nil
	}
	return n.env.command(n.rule(name, int(ph)-int(vxfw.TargetPhase))), nil
}

func (n *node) Draw(ctx vxfw.DrawContext) (vxfw.Surface, error) {
	w, h := n.spec.W, n.spec.H
	s := vxfw.NewSurface(uint16(w), uint16(h), n.self)
	fill := n.env.fill
	if fill == "" {
		fill = string(rune('a' + n.spec.ID%26))
	}
	for r := 0; r < h; r++ {
		for c := 0; c < w; c++ {
			s.WriteCell(uint16(c), uint16(r), vaxis.Cell{Character: vaxis.Character{Grapheme: fill, Width: 1}})
		}
	}
	for _, k := range n.kids {
		ks, _ := k.self.Draw(ctx)
		ss := vxfw.NewSubSurface(k.spec.Col, k.spec.Row, ks)
		ss.ZIndex = k.spec.Z
		s.Children = append(s.Children, ss)
	}
	if n.spec.Wrap > 0 {
		outer := vxfw.NewSurface(uint16(w+n.spec.Wrap), uint16(h), n.self)
		outer.AddChild(n.spec.Wrap, 0, s)
		return outer, nil
	}
	return s, nil
}

type capNode struct{ *node }

func (c *capNode) CaptureEvent(ev vaxis.Event) (vxfw.Command, error) {
	name := c.env.record(c.spec.ID, ev, -1)
	if name == "" {
		return nil, nil
	}
	return c.env.command(c.rule(name, -1)), nil
}

func buildTree(e *env, spec *Node) *node {
	n := &node{spec: spec, env: e}
	if spec.Captures {
		n.self = &capNode{n}
	} else {
		n.self = n
	}
	e.widgets[spec.ID] = n.self
	for i := range spec.Kids {
		n.kids = append(n.kids, buildTree(e, &spec.Kids[i]))
	}
	return n
}

// ---------------------------------------------------------------------------
// the model: what the statement says is delivered

type model struct {
	nodes   map[int]*Node
	parent  map[int]int
	focused int
	quit    bool
	log     []Entry
}

func newModel(top *Node) *model {
	m := &model{nodes: map[int]*Node{}, parent: map[int]int{}}
	// node 0 is the harness' root widget: the whole screen, a capturer
	// without rules
	m.nodes[0] = &Node{ID: 0, W: screenCols, H: screenRows, Captures: true, Kids: []Node{*top}}
	var walk func(n *Node)
	walk = func(n *Node) {
		for i := range n.Kids {
			k := &n.Kids[i]
			m.nodes[k.ID] = k
			m.parent[k.ID] = n.ID
			walk(k)
		}
	}
	walk(m.nodes[0])
	return m
}

func (m *model) rule(w int, ev string, phase int) []Cmd {
	for _, r := range m.nodes[w].Rules {
		if r.Ev == ev && r.Phase == phase {
			return r.Cmds
		}
	}
	return nil
}

func (m *model) pathTo(w int) []int {
	var p []int
	for {
		p = append([]int{w}, p...)
		if w == 0 {
			return p
		}
		w = m.parent[w]
	}
}

func (m *model) fire(w int, ev string, phase int) bool {
	m.log = append(m.log, Entry{w, ev, phase})
	return m.apply(m.rule(w, ev, phase))
}

func (m *model) apply(cmds []Cmd) bool {
	consumed := false
	for _, c := range cmds {
		switch c.K {
		case "consume":
			consumed = true
		case "quit":
			m.quit = true
		case "focus":
			if c.ID != m.focused {
				m.fire(m.focused, "focusout", 0)
				m.focused = c.ID
				m.fire(c.ID, "focusin", 0)
			}
		case "batch", "slice":
			if m.apply(c.Sub) {
				consumed = true
			}
		}
	}
	return consumed
}

// dispatch: capture root -> target, target, bubble parent -> root
func (m *model) dispatch(ev string, chain []int) {
	for _, w := range chain {
		if m.nodes[w].Captures && m.fire(w, ev, -1) {
			return
		}
	}
	if m.fire(chain[len(chain)-1], ev, 0) {
		return
	}
	for i := len(chain) - 2; i >= 0; i-- {
		if m.fire(chain[i], ev, 1) {
			return
		}
	}
}

// under returns the chain of widgets containing the point, root first, and
// whether two siblings both contain it somewhere along the way.
func (m *model) under(col, row int) (chain []int, ambiguous bool) {
	if col < 0 || row < 0 || col >= screenCols || row >= screenRows {
		return nil, false
	}
	n := m.nodes[0]
	ax, ay := 0, 0
	for {
		chain = append(chain, n.ID)
		var hit []*Node
		// inside a wrapped node the children live in the inner surface; the
		// gutter itself belongs to the node only
		if n.Wrap > 0 && col < ax+n.Wrap {
			return chain, ambiguous
		}
		ax += n.Wrap
		for i := range n.Kids {
			k := &n.Kids[i]
			if col >= ax+k.Col && col < ax+k.Col+k.outerW() && row >= ay+k.Row && row < ay+k.Row+k.H {
				hit = append(hit, k)
			}
		}
		if len(hit) == 0 {
			return chain, ambiguous
		}
		if len(hit) > 1 {
			ambiguous = true
			sort.Slice(hit, func(i, j int) bool { return hit[i].Z > hit[j].Z })
		}
		ax, ay = ax+hit[0].Col, ay+hit[0].Row
		n = hit[0]
	}
}

// contains reports whether widget w's rectangle contains the point and so do
// all its ancestors'.
func (m *model) contains(w, col, row int) bool {
	p := m.pathTo(w)
	ax, ay := 0, 0
	for _, id := range p {
		n := m.nodes[id]
		ax, ay = ax+n.Col, ay+n.Row
		if col < ax || col >= ax+n.outerW() || row < ay || row >= ay+n.H {
			return false
		}
		// its children are placed in the inner surface; the gutter is
		// the node's alone
		if n.Wrap > 0 && id != w && (col < ax+n.Wrap || col >= ax+n.Wrap+n.W) {
			return false
		}
		ax += n.Wrap
	}
	return col >= 0 && row >= 0 && col < screenCols && row < screenRows
}

// ---------------------------------------------------------------------------
// route: histories against the model

func mouseEvent(op Op) vaxis.Mouse {
	ev := vaxis.Mouse{Col: op.Col, Row: op.Row}
	switch op.Btn {
	case "press":
		ev.Button, ev.EventType = vaxis.MouseLeftButton, vaxis.EventPress
	case "release":
		ev.Button, ev.EventType = vaxis.MouseLeftButton, vaxis.EventRelease
	default:
		ev.Button, ev.EventType = vaxis.MouseNoButton, vaxis.EventMotion
	}
	return ev
}

type hoverState map[int]bool

// advance applies enter/leave entries and reports the first breach of
// alternation.
func (h hoverState) advance(es []Entry) string {
	for _, e := range es {
		switch e.Ev {
		case "enter":
			if h[e.W] {
				return fmt.Sprintf("widget %d received mouse-enter twice without a mouse-leave in between", e.W)
			}
			h[e.W] = true
		case "leave":
			if !h[e.W] {
				return fmt.Sprintf("widget %d received mouse-leave without being entered", e.W)
			}
			delete(h, e.W)
		}
	}
	return ""
}

func (h hoverState) list() []int {
	var l []int
	for w := range h {
		l = append(l, w)
	}
	sort.Ints(l)
	return l
}

func withoutHover(es []Entry) []Entry {
	var out []Entry
	for _, e := range es {
		if e.Ev != "enter" && e.Ev != "leave" {
			out = append(out, e)
		}
	}
	return out
}

func sameEntries(a, b []Entry) bool {
	if len(a) != len(b) {
		return false
	}
	for i := range a {
		if a[i] != b[i] {
			return false
		}
	}
	return true
}

func runRoute(c RouteCase) string {
	e := &env{widgets: map[int]vxfw.Widget{}}
	top := buildTree(e, &c.Tree)
	root := &appdrive.Root{Child: top.self}
	root.Log = func(ev vaxis.Event, phase int) {
		if phase >= 0 {
			phase -= int(vxfw.TargetPhase)
		}
		e.record(0, ev, phase)
	}
	e.widgets[0] = root
	app, err := appdrive.Start(screenCols, screenRows, refterm.Caps{Unicode2027: true}, root)
	if err != nil {
		return "harness: " + err.Error()
	}
	defer app.Quit(wait)
	if err := app.Frame(wait); err != nil {
		return "harness: first frame: " + err.Error()
	}
	e.take()
	m := newModel(&c.Tree)
	hover := hoverState{}
	for i := 0; i < len(c.Ops); {
		if c.Ops[i].K == "frame" {
			if err := app.Frame(wait); err != nil {
				if _, done := app.Done(); done {
					return fmt.Sprintf("op %d (frame): App.Run returned without a quit command", i)
				}
				return "harness: " + err.Error()
			}
			if h := hover.advance(e.take()); h != "" {
				return fmt.Sprintf("op %d (frame): %s", i, h)
			}
			i++
			continue
		}
		// a burst: events posted back to back, the loop is synchronised
		// with only after the last one
		first := i
		m.log = nil
		var descs []string
		hoverWant := "" // "", "none" or "chain"
		var hoverChain []int
		for ; i < len(c.Ops) && c.Ops[i].K != "frame"; i++ {
			op := c.Ops[i]
			var ev vaxis.Event
			desc := op.K
			switch op.K {
			case "key":
				ev = vaxis.Key{Keycode: rune(op.Key[0]), Text: op.Key}
				desc = "key " + op.Key
				if !m.quit {
					m.dispatch("key:"+op.Key, m.pathTo(m.focused))
				}
			case "custom":
				ev = customEvent{}
				if !m.quit {
					m.dispatch("custom", m.pathTo(m.focused))
				}
			case "mouse":
				chain, amb := m.under(op.Col, op.Row)
				if amb {
					harness.R.Label("route", "mouse op over overlapping siblings skipped")
					continue
				}
				desc = fmt.Sprintf("mouse %s at (%d,%d) over %v", op.Btn, op.Col, op.Row, chain)
				ev = mouseEvent(op)
				if !m.quit {
					if len(chain) > 0 {
						m.dispatch("mouse", chain)
					}
					hoverWant, hoverChain = "chain", chain
				}
			case "tfocusin":
				ev = vaxis.FocusIn{}
				if !m.quit {
					hoverWant = ""
				}
			case "tfocusout":
				ev = vaxis.FocusOut{}
				if !m.quit {
					hoverWant = "none"
				}
			}
			descs = append(descs, desc)
			app.App.PostEvent(ev)
			if !op.NoSync {
				i++
				break
			}
		}
		if len(descs) == 0 {
			continue
		}
		if len(descs) > 1 {
			harness.R.Label("route", "burst of events without a sentinel in between")
		}
		desc := strings.Join(descs, "; ")
		err := app.Sync(wait)
		_, done := app.Done()
		if m.quit {
			if !done {
				return fmt.Sprintf("ops %d.. (%s): a handler returned the quit command but App.Run went on to handle later events", first, desc)
			}
		} else if done {
			return fmt.Sprintf("ops %d.. (%s): App.Run returned without a quit command", first, desc)
		} else if err != nil {
			return "harness: " + err.Error()
		}
		got := e.take()
		gotMain, wantMain := withoutHover(got), withoutHover(m.log)
		if !sameEntries(gotMain, wantMain) {
			return fmt.Sprintf("ops %d.. (%s; focus was on %d): delivered %s, the routing rules give %s", first, desc, focusBefore(m, wantMain), entries(gotMain), entries(wantMain))
		}
		if h := hover.advance(got); h != "" {
			return fmt.Sprintf("ops %d.. (%s): %s", first, desc, h)
		}
		switch hoverWant {
		case "chain":
			want := append([]int(nil), hoverChain...)
			sort.Ints(want)
			if fmt.Sprint(hover.list()) != fmt.Sprint(want) {
				return fmt.Sprintf("ops %d.. (%s): after the events the widgets with an open mouse-enter are %v, the widgets under the pointer are %v", first, desc, hover.list(), want)
			}
		case "none":
			if len(hover) != 0 {
				return fmt.Sprintf("ops %d.. (%s): the terminal lost focus but widgets %v still have an open mouse-enter", first, desc, hover.list())
			}
		}
		if m.quit {
			return ""
		}
	}
	return ""
}

// focusBefore recovers the focus position before the op from the expected log
// (for the message only).
func focusBefore(m *model, want []Entry) int {
	for _, e := range want {
		if e.Ev == "focusout" {
			return e.W
		}
	}
	return m.focused
}

// ---- generators

func genSimpleCmd(rt *rapid.T, label string) Cmd {
	return Cmd{K: rapid.SampledFrom([]string{"redraw", "consume", "consume", "refresh", "nil"}).Draw(rt, label)}
}

// genCmds draws the commands a handler of a routed event returns.
func genCmds(rt *rapid.T, ids []int, allowQuit bool) []Cmd {
	var cmds []Cmd
	switch rapid.IntRange(0, 9).Draw(rt, "cmdshape") {
	case 0, 1, 2:
		cmds = []Cmd{{K: "consume"}}
	case 3:
		cmds = []Cmd{{K: "redraw"}}
	case 4:
		cmds = []Cmd{{K: "redraw"}, {K: "consume"}}
	case 5, 6:
		f := Cmd{K: "focus", ID: rapid.SampledFrom(ids).Draw(rt, "focus")}
		if rapid.Bool().Draw(rt, "order") {
			cmds = []Cmd{f, {K: "consume"}}
		} else {
			cmds = []Cmd{{K: "consume"}, {K: "redraw"}, f}
		}
	case 7:
		// nested batches
		f := Cmd{K: "focus", ID: rapid.SampledFrom(ids).Draw(rt, "focus")}
		inner := Cmd{K: rapid.SampledFrom([]string{"batch", "slice"}).Draw(rt, "inner"), Sub: []Cmd{{K: "consume"}, f}}
		cmds = []Cmd{{K: "batch", Sub: []Cmd{{K: "refresh"}, inner}}, {K: "nil"}}
	case 8:
		if allowQuit {
			cmds = []Cmd{{K: "quit"}}
			if rapid.Bool().Draw(rt, "quit-consume") {
				cmds = append(cmds, Cmd{K: "consume"})
			}
		} else {
			cmds = []Cmd{{K: "slice", Sub: []Cmd{{K: "consume"}}}}
		}
	default:
		cmds = []Cmd{{K: "nil"}}
	}
	return cmds
}

var routedEvents = []string{"key:a", "key:a", "key:b", "custom", "mouse", "mouse"}

func genRules(rt *rapid.T, n *Node, ids []int) {
	k := rapid.IntRange(0, 3).Draw(rt, "nrules")
	seen := map[string]bool{}
	for i := 0; i < k; i++ {
		var r Rule
		if rapid.IntRange(0, 2).Draw(rt, "notif") == 1 {
			r.Ev = rapid.SampledFrom([]string{"focusin", "focusout", "enter", "leave"}).Draw(rt, "nev")
			r.Phase = 0
			r.Cmds = []Cmd{genSimpleCmd(rt, "ncmd")}
		} else {
			r.Ev = rapid.SampledFrom(routedEvents).Draw(rt, "ev")
			r.Phase = rapid.IntRange(-1, 1).Draw(rt, "phase")
			if r.Phase == -1 && !n.Captures {
				r.Phase = 1
			}
			r.Cmds = genCmds(rt, ids, rapid.IntRange(0, 5).Draw(rt, "quit-ok") == 3)
		}
		key := fmt.Sprint(r.Ev, r.Phase)
		if seen[key] {
			continue
		}
		seen[key] = true
		n.Rules = append(n.Rules, r)
	}
}

// genTree: children are laid out side by side (route) or freely (overlap).
func genTree(rt *rapid.T, overlap bool) (Node, []int) {
	next := 1
	var ids []int
	var gen func(depth, w, h int) Node
	gen = func(depth, w, h int) Node {
		n := Node{ID: next, W: w, H: h, Captures: rapid.Bool().Draw(rt, "captures")}
		if next > 1 && rapid.IntRange(0, 5).Draw(rt, "wrap") == 3 {
			n.Wrap = 2
		}
		ids = append(ids, next)
		next++
		if depth == 0 || w < 2 || h < 1 {
			return n
		}
		k := rapid.IntRange(0, 3).Draw(rt, "nkids")
		zs := rapid.Permutation([]int{-1, 0, 1, 2}).Draw(rt, "zs")
		for i := 0; i < k; i++ {
			var kid Node
			if overlap {
				kw, kh := rapid.IntRange((w+1)/2, w).Draw(rt, "kw"), rapid.IntRange((h+1)/2, h).Draw(rt, "kh")
				kid = gen(depth-1, kw, kh)
				kid.Col, kid.Row = rapid.IntRange(-1, w/2).Draw(rt, "kc"), rapid.IntRange(-1, h/2).Draw(rt, "kr")
			} else {
				// strip i of k, possibly narrower and shorter, possibly
				// sticking out below
				sw := w / k
				if sw == 0 {
					break
				}
				kw := rapid.IntRange(1, sw).Draw(rt, "kw")
				kh := rapid.IntRange(1, h+1).Draw(rt, "kh")
				kid = gen(depth-1, kw, kh)
				kid.Col, kid.Row = i*sw+rapid.IntRange(0, sw-kw).Draw(rt, "kc"), rapid.IntRange(0, 1).Draw(rt, "kr")
			}
			kid.Z = zs[i]
			n.Kids = append(n.Kids, kid)
		}
		return n
	}
	w, h := rapid.IntRange(4, screenCols).Draw(rt, "w"), rapid.IntRange(2, screenRows).Draw(rt, "h")
	t := gen(3, w, h)
	return t, ids
}

func walkNodes(n *Node, f func(*Node)) {
	f(n)
	for i := range n.Kids {
		walkNodes(&n.Kids[i], f)
	}
}

func genMouseOp(rt *rapid.T) Op {
	op := Op{K: "mouse", Btn: rapid.SampledFrom([]string{"motion", "motion", "press", "release"}).Draw(rt, "btn")}
	op.Col = rapid.IntRange(-1, screenCols+1).Draw(rt, "mc")
	op.Row = rapid.IntRange(-1, screenRows+1).Draw(rt, "mr")
	if rapid.IntRange(0, 2).Draw(rt, "near") != 1 {
		op.Col = rapid.IntRange(0, 7).Draw(rt, "mc2")
		op.Row = rapid.IntRange(0, 3).Draw(rt, "mr2")
	}
	return op
}

func TestRoute(t *testing.T) {
	const sub = "route"
	n := harness.PerShard(harness.Scale(6_000, 300_000))
	harness.Check(t, sub, n, func(rt *rapid.T) Case {
		tree, ids := genTree(rt, false)
		targets := append([]int{0}, ids...)
		walkNodes(&tree, func(n *Node) { genRules(rt, n, targets) })
		c := RouteCase{Tree: tree}
		k := rapid.IntRange(1, 14).Draw(rt, "nops")
		focusRule := false
		walkNodes(&tree, func(n *Node) {
			for _, r := range n.Rules {
				if strings.Contains(fmt.Sprint(r.Cmds), "focus") {
					focusRule = true
				}
			}
		})
		mouse := false
		for i := 0; i < k; i++ {
			var op Op
			switch rapid.IntRange(0, 11).Draw(rt, "op") {
			case 0, 1, 2:
				op = Op{K: "key", Key: rapid.SampledFrom([]string{"a", "a", "b"}).Draw(rt, "key")}
			case 3:
				op = Op{K: "custom"}
			case 4, 5, 6, 7:
				op = genMouseOp(rt)
				mouse = true
			case 8:
				op = Op{K: "tfocusin"}
			case 9:
				op = Op{K: "tfocusout"}
			default:
				op = Op{K: "frame"}
			}
			if op.K != "frame" && rapid.IntRange(0, 2).Draw(rt, "nosync") == 1 {
				op.NoSync = true
			}
			c.Ops = append(c.Ops, op)
			if op.K == "tfocusout" && rapid.Bool().Draw(rt, "key-after-focusout") {
				// a notification delivered outside a dispatch, then a key
				c.Ops[len(c.Ops)-1].NoSync = true
				c.Ops = append(c.Ops, Op{K: "key", Key: "a"})
			}
		}
		cc := Case{Route: &c}
		if len(ids) >= 3 && (focusRule || mouse) {
			harness.R.Nontrivial(sub, cc)
		}
		harness.R.Sample(sub, cc)
		return cc
	}, harness.Confirm(run, 2))
}

// ---------------------------------------------------------------------------
// overlap: hit testing with overlapping siblings; no rules

type OverlapCase struct {
	Tree Node `json:"tree"`
	Pts  []Op `json:"pts"`
}

func runOverlap(c OverlapCase) string {
	e := &env{widgets: map[int]vxfw.Widget{}}
	top := buildTree(e, &c.Tree)
	root := &appdrive.Root{Child: top.self}
	root.Log = func(ev vaxis.Event, phase int) {
		if phase >= 0 {
			phase -= int(vxfw.TargetPhase)
		}
		e.record(0, ev, phase)
	}
	app, err := appdrive.Start(screenCols, screenRows, refterm.Caps{Unicode2027: true}, root)
	if err != nil {
		return "harness: " + err.Error()
	}
	defer app.Quit(wait)
	if err := app.Frame(wait); err != nil {
		return "harness: first frame: " + err.Error()
	}
	e.take()
	m := newModel(&c.Tree)
	hover := hoverState{}
	for i, op := range c.Pts {
		chain, amb := m.under(op.Col, op.Row)
		if amb {
			harness.R.Label("overlap", "pointer over overlapping siblings")
		}
		if err := app.Send(mouseEvent(op), wait); err != nil {
			if _, done := app.Done(); done {
				return fmt.Sprintf("point %d (%d,%d): App.Run returned", i, op.Col, op.Row)
			}
			return "harness: " + err.Error()
		}
		got := e.take()
		if h := hover.advance(got); h != "" {
			return fmt.Sprintf("point %d (%d,%d): %s", i, op.Col, op.Row, h)
		}
		routed := withoutHover(got)
		if len(chain) == 0 {
			if len(routed) != 0 {
				return fmt.Sprintf("point %d (%d,%d) is outside every widget but the event was delivered: %s", i, op.Col, op.Row, entries(routed))
			}
			if len(hover) != 0 {
				return fmt.Sprintf("point %d (%d,%d) is outside every widget but widgets %v still have an open mouse-enter", i, op.Col, op.Row, hover.list())
			}
			continue
		}
		var targets []int
		for _, en := range routed {
			if !m.contains(en.W, op.Col, op.Row) {
				return fmt.Sprintf("point %d (%d,%d): widget %d was offered the event but does not contain the point; delivered %s", i, op.Col, op.Row, en.W, entries(routed))
			}
			if en.Phase == 0 {
				targets = append(targets, en.W)
			}
		}
		if len(targets) != 1 {
			return fmt.Sprintf("point %d (%d,%d): %d widgets received the event in the target phase: %s", i, op.Col, op.Row, len(targets), entries(routed))
		}
		tgt := targets[0]
		// the target is a deepest widget: none of its children contains the point
		for _, k := range m.nodes[tgt].Kids {
			if m.contains(k.ID, op.Col, op.Row) {
				return fmt.Sprintf("point %d (%d,%d): widget %d is the target although its child %d contains the point; delivered %s", i, op.Col, op.Row, tgt, k.ID, entries(routed))
			}
		}
		if !amb && tgt != chain[len(chain)-1] {
			return fmt.Sprintf("point %d (%d,%d): target is widget %d, the deepest widget under the pointer is %d", i, op.Col, op.Row, tgt, chain[len(chain)-1])
		}
		if amb {
			// overlapping siblings: the one painted on top (highest z) is
			// what the user points at. Only a strictly deeper widget under
			// the pointer elsewhere could also be read as "the deepest"
			top := chain[len(chain)-1]
			if tgt == top {
				harness.R.Label("overlap", "target is on the topmost chain")
			} else if len(m.pathTo(tgt)) <= len(m.pathTo(top)) {
				return fmt.Sprintf("point %d (%d,%d): target is widget %d, but widget %d is painted on top of it there (higher z-index) and is at least as deep; delivered %s", i, op.Col, op.Row, tgt, top, entries(routed))
			} else {
				harness.R.Label("overlap", "target is a strictly deeper widget under a lower sibling")
			}
		}
		// the target's ancestors: captures root-first before the target,
		// bubbles nearest-first after it
		anc := m.pathTo(tgt)
		var wantCap, wantBub []int
		for _, a := range anc {
			if m.nodes[a].Captures {
				wantCap = append(wantCap, a)
			}
		}
		for j := len(anc) - 2; j >= 0; j-- {
			wantBub = append(wantBub, anc[j])
		}
		isAnc := map[int]bool{}
		for _, a := range anc {
			isAnc[a] = true
		}
		var gotCap, gotBub []int
		seenTarget := false
		for _, en := range routed {
			if en.Phase == 0 {
				seenTarget = true
				continue
			}
			if !isAnc[en.W] {
				continue
			}
			if en.Phase == -1 {
				if seenTarget {
					return fmt.Sprintf("point %d (%d,%d): capture after the target phase: %s", i, op.Col, op.Row, entries(routed))
				}
				gotCap = append(gotCap, en.W)
			} else {
				if !seenTarget {
					return fmt.Sprintf("point %d (%d,%d): bubble before the target phase: %s", i, op.Col, op.Row, entries(routed))
				}
				gotBub = append(gotBub, en.W)
			}
		}
		if fmt.Sprint(gotCap) != fmt.Sprint(wantCap) || fmt.Sprint(gotBub) != fmt.Sprint(wantBub) {
			return fmt.Sprintf("point %d (%d,%d), target %d: its ancestors captured in order %v and bubbled in order %v, want %v and %v; delivered %s", i, op.Col, op.Row, tgt, gotCap, gotBub, wantCap, wantBub, entries(routed))
		}
		// every widget on the unambiguous chain has an open enter
		if !amb {
			want := append([]int(nil), chain...)
			sort.Ints(want)
			if fmt.Sprint(hover.list()) != fmt.Sprint(want) {
				return fmt.Sprintf("point %d (%d,%d): widgets with an open mouse-enter are %v, the widgets under the pointer are %v", i, op.Col, op.Row, hover.list(), want)
			}
		} else {
			for w := range hover {
				if !m.contains(w, op.Col, op.Row) {
					return fmt.Sprintf("point %d (%d,%d): widget %d has an open mouse-enter but does not contain the point", i, op.Col, op.Row, w)
				}
			}
			for _, w := range anc {
				if !hover[w] {
					return fmt.Sprintf("point %d (%d,%d): widget %d is on the target's chain but has no open mouse-enter", i, op.Col, op.Row, w)
				}
			}
		}
	}
	return ""
}

func TestOverlap(t *testing.T) {
	const sub = "overlap"
	n := harness.PerShard(harness.Scale(3_000, 150_000))
	harness.Check(t, sub, n, func(rt *rapid.T) Case {
		tree, _ := genTree(rt, true)
		c := OverlapCase{Tree: tree}
		k := rapid.IntRange(1, 10).Draw(rt, "npts")
		m := newModel(&tree)
		amb := false
		for i := 0; i < k; i++ {
			op := genMouseOp(rt)
			if rapid.IntRange(0, 3).Draw(rt, "inside") != 2 {
				op.Col, op.Row = rapid.IntRange(0, tree.W-1).Draw(rt, "ic"), rapid.IntRange(0, tree.H-1).Draw(rt, "ir")
			}
			if _, a := m.under(op.Col, op.Row); a {
				amb = true
			}
			c.Pts = append(c.Pts, op)
		}
		cc := Case{Overlap: &c}
		if amb {
			harness.R.Nontrivial(sub, cc)
		}
		harness.R.Sample(sub, cc)
		return cc
	}, harness.Confirm(run, 2))
}

// ---------------------------------------------------------------------------
// commands: each returned command takes effect exactly once

type CmdCase struct {
	Steps [][]Cmd `json:"steps"` // the command tree returned for each event
}

func flatten(cmds []Cmd, f func(Cmd)) {
	for _, c := range cmds {
		if c.K == "batch" || c.K == "slice" {
			flatten(c.Sub, f)
		} else {
			f(c)
		}
	}
}

type cmdWidget struct {
	e      *env
	next   []Cmd
	events int
}

func (w *cmdWidget) HandleEvent(ev vaxis.Event, ph vxfw.EventPhase) (vxfw.Command, error) {
	if _, ok := ev.(customEvent); ok {
		w.events++
		return w.e.command(w.next), nil
	}
	return nil, nil
}

func (w *cmdWidget) Draw(ctx vxfw.DrawContext) (vxfw.Surface, error) {
	s := vxfw.NewSurface(ctx.Max.Width, ctx.Max.Height, w)
	for r := uint16(0); r < ctx.Max.Height; r++ {
		for c := uint16(0); c < ctx.Max.Width; c++ {
			s.WriteCell(c, r, vaxis.Cell{Character: vaxis.Character{Grapheme: "@", Width: 1}})
		}
	}
	return s, nil
}

const settle = 40 * time.Millisecond

func runCommands(c CmdCase) string {
	e := &env{widgets: map[int]vxfw.Widget{}}
	w := &cmdWidget{e: e}
	// the root is the only widget: it is focused and receives custom events
	// in the target phase
	root := &appdrive.Root{Child: w}
	root.InitCmd = func() vxfw.Command { return vxfw.FocusWidgetCmd(w) }
	full := screenCols * screenRows
	app, err := appdrive.Start(screenCols, screenRows, refterm.Caps{Unicode2027: true}, root)
	if err != nil {
		return "harness: " + err.Error()
	}
	defer app.Quit(wait)
	if err := app.Frame(wait); err != nil {
		return "harness: first frame: " + err.Error()
	}
	app.TTY.TakeOut()
	for i, cmds := range c.Steps {
		var redraw, refresh, quit bool
		flatten(cmds, func(c Cmd) {
			switch c.K {
			case "redraw":
				redraw = true
			case "refresh":
				refresh = true
			case "quit":
				quit = true
			}
		})
		w.next = cmds
		n0 := root.Draws()
		ev0 := w.events
		app.App.PostEvent(customEvent{})
		err := app.Sync(wait)
		_, done := app.Done()
		if quit {
			if !done {
				return fmt.Sprintf("step %d %v: the quit command did not end App.Run", i, cmds)
			}
			return ""
		}
		if done {
			return fmt.Sprintf("step %d %v: App.Run returned without a quit command", i, cmds)
		}
		if err != nil {
			return "harness: " + err.Error()
		}
		if w.events != ev0+1 {
			return fmt.Sprintf("step %d: the widget saw %d events for one posted", i, w.events-ev0)
		}
		if redraw {
			if err := app.AwaitFrame(n0, wait); err != nil {
				return fmt.Sprintf("step %d %v: the redraw command did not produce a frame (%v)", i, cmds, err)
			}
		} else {
			time.Sleep(settle)
			if d := root.Draws() - n0; d != 0 {
				return fmt.Sprintf("step %d %v: %d draws without a redraw command", i, cmds, d)
			}
			if refresh {
				// a refresh on its own waits for the next frame
				if err := app.Frame(wait); err != nil {
					return "harness: " + err.Error()
				}
			}
		}
		out := app.TTY.TakeOut()
		glyphs := bytes.Count(out, []byte("@"))
		if refresh && glyphs < full {
			return fmt.Sprintf("step %d %v: the frame after a refresh command repainted %d of %d cells", i, cmds, glyphs, full)
		}
		if !refresh && glyphs >= full {
			return fmt.Sprintf("step %d %v: a complete repaint (%d cells) without a refresh command", i, cmds, glyphs)
		}
		// exactly once: nothing more happens on its own, and the next frame
		// is an ordinary one
		n1 := root.Draws()
		time.Sleep(settle)
		if d := root.Draws() - n1; d != 0 {
			return fmt.Sprintf("step %d %v: %d more draws after the frame the commands asked for", i, cmds, d)
		}
		if redraw || refresh {
			if err := app.Frame(wait); err != nil {
				return "harness: " + err.Error()
			}
			out := app.TTY.TakeOut()
			if g := bytes.Count(out, []byte("@")); g >= full {
				return fmt.Sprintf("step %d %v: the refresh took effect again on the following frame (%d cells repainted)", i, cmds, g)
			}
		}
	}
	return ""
}

func genCmdTree(rt *rapid.T, depth int) []Cmd {
	k := rapid.IntRange(0, 3).Draw(rt, "ncmds")
	var out []Cmd
	for i := 0; i < k; i++ {
		kind := rapid.SampledFrom([]string{"redraw", "refresh", "consume", "nil", "batch", "slice", "redraw", "quit"}).Draw(rt, "ck")
		if kind == "quit" && rapid.IntRange(0, 3).Draw(rt, "really-quit") != 2 {
			kind = "refresh"
		}
		c := Cmd{K: kind}
		if kind == "batch" || kind == "slice" {
			if depth == 0 {
				c = Cmd{K: "redraw"}
			} else {
				c.Sub = genCmdTree(rt, depth-1)
			}
		}
		out = append(out, c)
	}
	return out
}

func TestCommands(t *testing.T) {
	const sub = "commands"
	n := harness.PerShard(harness.Scale(1_200, 40_000))
	harness.Check(t, sub, n, func(rt *rapid.T) Case {
		var c CmdCase
		k := rapid.IntRange(1, 3).Draw(rt, "nsteps")
		nt := false
		for i := 0; i < k; i++ {
			cmds := genCmdTree(rt, 2)
			n := 0
			flatten(cmds, func(c Cmd) {
				if c.K == "redraw" || c.K == "refresh" {
					n++
				}
			})
			if n >= 2 {
				nt = true
			}
			c.Steps = append(c.Steps, cmds)
		}
		cc := Case{Commands: &c}
		if nt {
			harness.R.Nontrivial(sub, cc)
		}
		harness.R.Sample(sub, cc)
		return cc
	}, harness.Confirm(run, 2))
}

// ---------------------------------------------------------------------------

type Case struct {
	Route    *RouteCase   `json:"route,omitempty"`
	Overlap  *OverlapCase `json:"overlap,omitempty"`
	Commands *CmdCase     `json:"commands,omitempty"`
}

func run(c Case) string {
	switch {
	case c.Route != nil:
		return runRoute(*c.Route)
	case c.Overlap != nil:
		return runOverlap(*c.Overlap)
	case c.Commands != nil:
		return runCommands(*c.Commands)
	}
	return ""
}

func TestReplay(t *testing.T) {
	r := harness.Decode(run)
	harness.ReplayAll(t, map[string]harness.Runner{"route": r, "overlap": r, "commands": r})
}
