package c08

import (
	"errors"
	"fmt"
	"io"
	"reflect"
	"runtime"
	"sync"
	"testing"
	"time"

	"git.sr.ht/~rockorager/vaxis/ansi"
	"pgregory.net/rapid"

	"verif/internal/harness"
	"verif/internal/pdrive"
	"verif/internal/pgen"
	"verif/internal/vtref"
)

func TestMain(m *testing.M) { harness.Main(m, "C08") }

func opts() vtref.Options {
	return vtref.Options{DeliverSTAfterEmptyString: harness.Known("C02-A2")}
}

// ---------------------------------------------------------------------------
// end of input at every offset

type CutCase struct {
	Stream   []byte `json:"stream"`
	Cut      int    `json:"cut"`
	End      string `json:"end"` // eof | err | zero
	Splits   []int  `json:"splits"`
	Consumer string `json:"consumer"` // finish | retain | subset | slow
}

type zeroReader struct {
	r     io.Reader
	zeros int
}

func (z *zeroReader) Read(p []byte) (int, error) {
	n, err := z.r.Read(p)
	if err == io.EOF {
		z.zeros++
		return 0, nil // (0, nil) for ever
	}
	return n, err
}

var errBoom = errors.New("verif: injected read error")

type retained struct {
	seq  ansi.Sequence
	copy pdrive.Got
	back bool
}

func runCutOnce(c CutCase) string {
	if c.Cut > len(c.Stream) {
		c.Cut = len(c.Stream)
	}
	data := c.Stream[:c.Cut]
	cr := pdrive.NewChunkReader(data, c.Splits)
	var rd io.Reader = cr
	switch c.End {
	case "err":
		cr.FinalErr = errBoom
	case "zero":
		rd = &zeroReader{r: cr}
	}
	p := ansi.NewParser(rd)
	var items []pdrive.Got
	var kept []retained
	closed := false
	timer := time.NewTimer(20 * time.Second)
	defer timer.Stop()
	n := 0
loop:
	for {
		select {
		case seq, ok := <-p.Next():
			if !ok {
				closed = true
				break loop
			}
			g := pdrive.Convert(seq)
			items = append(items, g)
			n++
			switch c.Consumer {
			case "finish":
				p.Finish(seq)
			case "retain":
				kept = append(kept, retained{seq: seq, copy: g})
			case "subset":
				if n%3 == 0 {
					p.Finish(seq)
				} else {
					kept = append(kept, retained{seq: seq, copy: g})
				}
			case "slow":
				runtime.Gosched()
				kept = append(kept, retained{seq: seq, copy: g})
				if n%2 == 0 {
					runtime.Gosched()
				}
			}
		case <-timer.C:
			break loop
		}
	}
	out := pdrive.Outcome{Items: items, Closed: closed, Hang: !closed}
	if msg := pdrive.Lifecycle(out); msg != "" {
		return msg
	}
	// delivered sequences must not have been modified by later parsing
	for i, k := range kept {
		now := pdrive.Convert(k.seq)
		now.Raw, k.copy.Raw = nil, nil
		if !reflect.DeepEqual(now, k.copy) {
			return fmt.Sprintf("sequence %d was delivered as %v but, retained without Finish, later reads as %v", i, k.copy, now)
		}
	}
	ref := vtref.ParseOpt(data, opts())
	if ref.Undefined {
		return ""
	}
	ends := cr.Ends
	return pdrive.Compare(ref, items, ends)
}

var runCut = harness.Confirm(runCutOnce, 2)

func insideSequence(stream []byte, cut int) bool {
	if cut <= 0 || cut >= len(stream) {
		return false
	}
	s := vtref.NewStream()
	s.Feed(stream[:cut])
	return s.InSequence()
}

func TestCutEverywhere(t *testing.T) {
	const sub = "cut-everywhere"
	n := harness.PerShard(harness.Scale(60_000, 2_000_000))
	harness.Check(t, sub, n, func(rt *rapid.T) []CutCase {
		stream := pgen.Stream(rt, 5)
		if len(stream) > 64 {
			stream = stream[:64]
		}
		end := rapid.SampledFrom([]string{"eof", "eof", "err", "zero"}).Draw(rt, "end")
		cons := rapid.SampledFrom([]string{"finish", "retain", "subset", "slow"}).Draw(rt, "consumer")
		splits := pgen.Splits(rt, len(stream))
		var cases []CutCase
		for cut := 0; cut <= len(stream); cut++ {
			c := CutCase{Stream: stream, Cut: cut, End: end, Splits: splits, Consumer: cons}
			cases = append(cases, c)
		}
		harness.R.Label(sub, "end:"+end)
		harness.R.Label(sub, "consumer:"+cons)
		harness.R.Sample(sub, map[string]any{"stream": fmt.Sprintf("%q", stream), "end": end, "consumer": cons, "splits": splits})
		return cases
	}, func(cases []CutCase) string {
		for _, c := range cases {
			harness.R.Eval(sub + "-cuts")
			if insideSequence(c.Stream, c.Cut) {
				harness.R.Nontrivial(sub, c)
			}
			if msg := runCut(c); msg != "" {
				return fmt.Sprintf("cut at %d/%d (%s, consumer %s): %s [stream %q]", c.Cut, len(c.Stream), c.End, c.Consumer, msg, c.Stream)
			}
		}
		return ""
	})
}

// ---------------------------------------------------------------------------
// retention with long streams: the parser runs far ahead of the consumer

type RetainCase struct {
	Stream []byte `json:"stream"`
	Splits []int  `json:"splits"`
	Every  int    `json:"finish_every"` // 0 = never hand back
}

func runRetainOnce(c RetainCase) string {
	cr := pdrive.NewChunkReader(c.Stream, c.Splits)
	p := ansi.NewParser(cr)
	var kept []retained
	n := 0
	timer := time.NewTimer(20 * time.Second)
	defer timer.Stop()
	for {
		select {
		case seq, ok := <-p.Next():
			if !ok {
				for i, k := range kept {
					now := pdrive.Convert(k.seq)
					now.Raw, k.copy.Raw = nil, nil
					if !reflect.DeepEqual(now, k.copy) {
						return fmt.Sprintf("sequence %d was delivered as %v but, retained without Finish, reads as %v after the parser ran ahead", i, k.copy, now)
					}
				}
				return ""
			}
			n++
			if c.Every > 0 && n%c.Every == 0 {
				p.Finish(seq)
				continue
			}
			kept = append(kept, retained{seq: seq, copy: pdrive.Convert(seq)})
			if n%4 == 0 {
				runtime.Gosched()
			}
		case <-timer.C:
			return "parser did not close its channel (hang)"
		}
	}
}

func TestRetention(t *testing.T) {
	const sub = "retention"
	n := harness.PerShard(harness.Scale(100_000, 4_000_000))
	harness.Check(t, sub, n, func(rt *rapid.T) RetainCase {
		var stream []byte
		k := rapid.IntRange(2, 12).Draw(rt, "nseq")
		csi := 0
		for i := 0; i < k; i++ {
			switch rapid.IntRange(0, 4).Draw(rt, "kind") {
			case 0, 1:
				stream = append(stream, fmt.Sprintf("\x1b[%d;%d:%dm", rapid.IntRange(0, 300).Draw(rt, "a"), rapid.IntRange(0, 300).Draw(rt, "b"), i)...)
				csi++
			case 2:
				stream = append(stream, fmt.Sprintf("\x1b]%d;payload-%d\x1b\\", rapid.IntRange(0, 999).Draw(rt, "osc"), i)...)
			case 3:
				stream = append(stream, fmt.Sprintf("\x1bP%d$q data%d\x1b\\\x1b(%c", i, i, 'A'+byte(i))...)
			default:
				stream = append(stream, pgen.Token(rt)...)
			}
		}
		c := RetainCase{Stream: stream, Splits: pgen.Splits(rt, len(stream)), Every: rapid.SampledFrom([]int{0, 0, 2, 3, 5}).Draw(rt, "every")}
		if csi >= 2 {
			harness.R.Nontrivial(sub, c)
		}
		harness.R.Sample(sub, map[string]any{"stream": fmt.Sprintf("%q", stream), "every": c.Every})
		return c
	}, harness.Confirm(runRetainOnce, 2))
}

// ---------------------------------------------------------------------------
// Close(), then the reader returns

type gateReader struct {
	mu      sync.Mutex
	cond    *sync.Cond
	queue   [][]byte
	final   error
	hasFin  bool
	blocked bool
}

func newGateReader() *gateReader { g := &gateReader{}; g.cond = sync.NewCond(&g.mu); return g }

func (g *gateReader) push(b []byte) {
	g.mu.Lock()
	g.queue = append(g.queue, b)
	g.cond.Broadcast()
	g.mu.Unlock()
}
func (g *gateReader) finish(err error) {
	g.mu.Lock()
	g.final, g.hasFin = err, true
	g.cond.Broadcast()
	g.mu.Unlock()
}
func (g *gateReader) Read(p []byte) (int, error) {
	g.mu.Lock()
	defer g.mu.Unlock()
	for len(g.queue) == 0 {
		if g.hasFin {
			return 0, g.final
		}
		g.blocked = true
		g.cond.Wait()
		g.blocked = false
	}
	n := copy(p, g.queue[0])
	if n < len(g.queue[0]) {
		g.queue[0] = g.queue[0][n:]
	} else {
		g.queue = g.queue[1:]
	}
	return n, nil
}
func (g *gateReader) isBlocked() bool {
	g.mu.Lock()
	defer g.mu.Unlock()
	return g.blocked && len(g.queue) == 0
}

type CloseCase struct {
	Before []byte `json:"before"`
	After  []byte `json:"after"`  // what the reader returns after Close (may be empty)
	End    string `json:"end"`    // eof | err
	Take   int    `json:"take"`   // items consumed before Close
	Settle bool   `json:"settle"` // wait until the parser is blocked in Read before Close
}

func runCloseOnce(c CloseCase) string {
	g := newGateReader()
	p := ansi.NewParser(g)
	g.push(c.Before)
	var items []pdrive.Got
	taken := 0
	deadline := time.After(20 * time.Second)
	for taken < c.Take {
		select {
		case seq, ok := <-p.Next():
			if !ok {
				return "channel closed before Close() and before the reader ended"
			}
			items = append(items, pdrive.Convert(seq))
			p.Finish(seq)
			taken++
		case <-time.After(3 * time.Millisecond):
			taken = c.Take // fewer items than asked for: go on
		case <-deadline:
			return "hang before Close"
		}
	}
	if c.Settle {
		for i := 0; i < 60 && !g.isBlocked(); i++ {
			time.Sleep(50 * time.Microsecond)
		}
	}
	p.Close()
	// the reader returns: more data, then the end
	if len(c.After) > 0 {
		g.push(c.After)
	}
	if c.End == "err" {
		g.finish(errBoom)
	} else {
		g.finish(io.EOF)
	}
	for {
		select {
		case seq, ok := <-p.Next():
			if !ok {
				out := pdrive.Outcome{Items: items, Closed: true}
				return pdrive.Lifecycle(out)
			}
			items = append(items, pdrive.Convert(seq))
			p.Finish(seq)
		case <-deadline:
			return "after Close() and the reader returning, the parser did not close its channel"
		}
	}
}

func TestCloseThenReaderReturns(t *testing.T) {
	const sub = "close"
	n := harness.PerShard(harness.Scale(20_000, 1_000_000))
	harness.Check(t, sub, n, func(rt *rapid.T) CloseCase {
		c := CloseCase{Before: pgen.Stream(rt, 4), End: rapid.SampledFrom([]string{"eof", "err"}).Draw(rt, "end"),
			Take: rapid.IntRange(0, 6).Draw(rt, "take"), Settle: rapid.Bool().Draw(rt, "settle")}
		if rapid.Bool().Draw(rt, "after?") {
			c.After = pgen.Stream(rt, 3)
		}
		if insideSequence(append(append([]byte{}, c.Before...), 'x'), len(c.Before)) {
			harness.R.Nontrivial(sub, c)
		}
		harness.R.Sample(sub, map[string]any{"before": fmt.Sprintf("%q", c.Before), "after": fmt.Sprintf("%q", c.After), "end": c.End, "take": c.Take})
		return c
	}, harness.Confirm(runCloseOnce, 2))
}

// ---------------------------------------------------------------------------
// Escape key timing

type TimedCase struct {
	Segs [][]byte `json:"segs"`
	Gaps []string `json:"gaps"` // after segment i: "none" | "read" | "long"
	End  string   `json:"end"`
	// Lag: the consumer takes nothing until the last long gap is over, so
	// the Escape timeout fires while the parser's queue may be full
	Lag bool `json:"lag,omitempty"`
}

const longGap = 70 * time.Millisecond

func runTimedOnce(c TimedCase) string {
	var stream []byte
	var splits []int
	sleepAt := map[int]bool{}
	long := make([]bool, len(c.Segs))
	for i, s := range c.Segs {
		stream = append(stream, s...)
		if i < len(c.Gaps) {
			switch c.Gaps[i] {
			case "read":
				splits = append(splits, len(stream))
			case "long":
				splits = append(splits, len(stream))
				sleepAt[len(stream)] = true
				long[i] = true
			}
		}
	}
	cr := pdrive.NewChunkReader(stream, splits)
	var start chan struct{}
	if c.Lag && len(sleepAt) > 0 {
		start = make(chan struct{})
	}
	cr.Gate = func(off int) {
		if sleepAt[off] {
			delete(sleepAt, off)
			time.Sleep(longGap)
			if len(sleepAt) == 0 && start != nil {
				close(start)
				start = nil
				// let the consumer take what is queued before the next
				// byte is handed to the parser
				time.Sleep(5 * time.Millisecond)
			}
		}
	}
	var lag <-chan struct{}
	if start != nil {
		lag = start
	}
	out := pdrive.RunReaderLagging(cr, true, 30*time.Second, lag)
	if msg := pdrive.Lifecycle(out); msg != "" {
		return msg
	}
	ref := vtref.ParseSegments(c.Segs, long, opts())
	if ref.Undefined {
		return ""
	}
	return pdrive.Compare(ref, out.Items, out.Ends)
}

var runTimed = harness.Confirm(runTimedOnce, 2)

func runTimedBatch(cases []TimedCase) string {
	harness.JournalBegin("esc-timing", cases)
	defer harness.JournalEnd()
	msgs := make([]string, len(cases))
	var wg sync.WaitGroup
	for i := range cases {
		wg.Add(1)
		go func(i int) {
			defer wg.Done()
			msgs[i] = runTimedOnce(cases[i])
		}(i)
	}
	wg.Wait()
	for i, m := range msgs {
		if m != "" {
			// confirm alone, sequentially
			if m2 := runTimed(cases[i]); m2 != "" {
				return fmt.Sprintf("timed case %d: %s [segments %q gaps %v]", i, m2, cases[i].Segs, cases[i].Gaps)
			}
			harness.R.Label("confirm", "timed-failure-not-reproduced")
		}
	}
	return ""
}

func genTimed(rt *rapid.T) TimedCase {
	var c TimedCase
	n := rapid.IntRange(1, 4).Draw(rt, "nsegs")
	longs := 0
	for i := 0; i < n; i++ {
		var seg []byte
		switch rapid.IntRange(0, 5).Draw(rt, "segkind") {
		case 0:
			seg = pgen.Stream(rt, 2)
		case 1:
			seg = []byte{0x1b}
		case 2:
			seg = append(pgen.Token(rt), 0x1b)
		case 3:
			seg = []byte(rapid.SampledFrom([]string{"\x1b\x1b", "\x1b\x18", "\x1b\x1a", "\x1b\x1b[A", "\x1b]x\x1b", "\x1bPq\x1b", "\x1b[1;2", "\x1bO", "\\", "[A", "a"}).Draw(rt, "special"))
		default:
			seg = append([]byte{0x1b}, pgen.Token(rt)...)
		}
		c.Segs = append(c.Segs, seg)
		gap := rapid.SampledFrom([]string{"none", "read", "read", "long"}).Draw(rt, "gap")
		if gap == "long" {
			longs++
			if longs > 2 {
				gap = "read"
			}
		}
		c.Gaps = append(c.Gaps, gap)
	}
	c.Lag = longs > 0 && rapid.IntRange(0, 2).Draw(rt, "lag") == 1
	return c
}

func hasLoneEsc(c TimedCase) bool {
	for i, s := range c.Segs {
		if len(s) > 0 && s[len(s)-1] == 0x1b && i < len(c.Gaps) && c.Gaps[i] == "long" {
			return true
		}
	}
	return false
}

func TestEscapeTiming(t *testing.T) {
	const sub = "esc-timing"
	n := harness.PerShard(harness.Scale(3_000, 100_000))
	harness.Check(t, sub, n, func(rt *rapid.T) []TimedCase {
		k := rapid.IntRange(1, 8).Draw(rt, "batch")
		var out []TimedCase
		for i := 0; i < k; i++ {
			c := genTimed(rt)
			out = append(out, c)
			harness.R.Eval(sub + "-cases")
			if hasLoneEsc(c) {
				harness.R.Nontrivial(sub, c)
				harness.R.Label(sub, "lone-esc-then-silence")
				if c.Lag {
					harness.R.Label(sub, "lone-esc-then-silence, consumer lagging")
				}
			} else {
				harness.R.Label(sub, "no-lone-esc")
			}
		}
		harness.R.Sample(sub, fmt.Sprintf("%q %v", out[0].Segs, out[0].Gaps))
		return out
	}, runTimedBatch)
}

func TestReplay(t *testing.T) {
	harness.ReplayAll(t, map[string]harness.Runner{
		"cut-everywhere": harness.Decode(func(cs []CutCase) string {
			for _, c := range cs {
				if m := runCut(c); m != "" {
					return m
				}
			}
			return ""
		}),
		"retention":  harness.Decode(harness.Confirm(runRetainOnce, 2)),
		"close":      harness.Decode(harness.Confirm(runCloseOnce, 2)),
		"esc-timing": harness.Decode(runTimedBatch),
	})
}
