//go:build verif

package c06

import (
	"fmt"
	"strings"
	"testing"

	vaxis "git.sr.ht/~rockorager/vaxis"
	"git.sr.ht/~rockorager/vaxis/widgets/term"
	"pgregory.net/rapid"

	"verif/internal/harness"
	"verif/internal/refterm"
	"verif/internal/termdrive"
)

func TestMain(m *testing.M) { harness.Main(m, "C06") }

type Op struct {
	K string `json:"k"`           // print cr lf ind ri nel sc rc alton altoff csi sgr
	F string `json:"f,omitempty"` // CSI final
	P []int  `json:"p,omitempty"` // parameters, -1 = omitted
	T string `json:"t,omitempty"` // text / sgr params
}

type Case struct {
	Cols int  `json:"cols"`
	Rows int  `json:"rows"`
	Ops  []Op `json:"ops"`
}

func (o Op) Bytes() string {
	switch o.K {
	case "print":
		return o.T
	case "cr":
		return "\r"
	case "lf":
		return "\n"
	case "ind":
		return "\x1bD"
	case "ri":
		return "\x1bM"
	case "nel":
		return "\x1bE"
	case "sc":
		return "\x1b7"
	case "rc":
		return "\x1b8"
	case "alton":
		return "\x1b[?1049h"
	case "altoff":
		return "\x1b[?1049l"
	case "sgr":
		return "\x1b[" + o.T + "m"
	case "csi":
		var ps []string
		for _, p := range o.P {
			if p < 0 {
				ps = append(ps, "")
			} else {
				ps = append(ps, fmt.Sprint(p))
			}
		}
		return "\x1b[" + strings.Join(ps, ";") + o.F
	}
	return ""
}

func (o Op) String() string { return fmt.Sprintf("%s %q", o.K, o.Bytes()) }

// allowedInPendingWrap: what may follow while the reference terminal defers a wrap.
func allowedInPendingWrap(o Op) bool {
	switch o.K {
	case "print", "cr":
		return true
	case "csi":
		switch o.F {
		case "H", "f", "G", "d", "`":
			return true
		}
	}
	return false
}

func emuColor(c vaxis.Color) refterm.Color {
	ps := c.Params()
	switch len(ps) {
	case 1:
		return refterm.Color{Kind: refterm.ColIndex, V: uint32(ps[0])}
	case 3:
		return refterm.Color{Kind: refterm.ColRGB, V: uint32(ps[0])<<16 | uint32(ps[1])<<8 | uint32(ps[2])}
	}
	return refterm.Color{}
}

func blankG(g string) bool { return g == "" || g == " " }

func compare(s term.VerifState, t *refterm.Term) string {
	t.Lock()
	defer t.Unlock()
	grid := t.Grid()
	if s.Rows != t.Rows || s.Cols != t.Cols {
		return fmt.Sprintf("size %dx%d vs reference %dx%d", s.Cols, s.Rows, t.Cols, t.Rows)
	}
	for r := 0; r < t.Rows; r++ {
		for c := 0; c < t.Cols; c++ {
			ref := grid[r][c]
			emu := s.Active[r][c]
			where := fmt.Sprintf("row %d col %d", r, c)
			ebg := emuColor(emu.Style.Background)
			eattr := uint8(emu.Style.Attribute) >> 1
			if ref.W == 0 {
				// right half of a wide glyph
				if !blankG(emu.Grapheme) {
					return fmt.Sprintf("%s: emulator shows %q, a VT/xterm shows the right half of the wide glyph to its left", where, emu.Grapheme)
				}
				if ebg != ref.Style.Bg {
					return fmt.Sprintf("%s (right half of a wide glyph): background %v, reference %v", where, ebg, ref.Style.Bg)
				}
				continue
			}
			if blankG(ref.G) {
				if !blankG(emu.Grapheme) {
					return fmt.Sprintf("%s: emulator shows %q, a VT/xterm shows a blank", where, emu.Grapheme)
				}
				if ebg != ref.Style.Bg {
					return fmt.Sprintf("%s (blank): background %v, a VT/xterm has %v", where, ebg, ref.Style.Bg)
				}
				const visible = refterm.AReverse | refterm.AStrike
				if eattr&visible != ref.Style.Attrs&visible || uint8(emu.Style.UnderlineStyle) != ref.Style.UlStyle {
					return fmt.Sprintf("%s (blank): attributes %07b underline %d, a VT/xterm has %07b underline %d", where, eattr, emu.Style.UnderlineStyle, ref.Style.Attrs, ref.Style.UlStyle)
				}
				continue
			}
			if emu.Grapheme != ref.G {
				return fmt.Sprintf("%s: emulator shows %q, a VT/xterm shows %q", where, emu.Grapheme, ref.G)
			}
			if emu.Width != ref.W {
				return fmt.Sprintf("%s: %q has width %d, reference %d", where, emu.Grapheme, emu.Width, ref.W)
			}
			if fg := emuColor(emu.Style.Foreground); fg != ref.Style.Fg {
				return fmt.Sprintf("%s (%q): foreground %v, reference %v", where, ref.G, fg, ref.Style.Fg)
			}
			if ebg != ref.Style.Bg {
				return fmt.Sprintf("%s (%q): background %v, reference %v", where, ref.G, ebg, ref.Style.Bg)
			}
			if eattr != ref.Style.Attrs {
				return fmt.Sprintf("%s (%q): attributes %07b, reference %07b", where, ref.G, eattr, ref.Style.Attrs)
			}
			if uint8(emu.Style.UnderlineStyle) != ref.Style.UlStyle {
				return fmt.Sprintf("%s (%q): underline style %d, reference %d", where, ref.G, emu.Style.UnderlineStyle, ref.Style.UlStyle)
			}
			if ref.Style.UlStyle != 0 && emuColor(emu.Style.UnderlineColor) != ref.Style.Ul {
				return fmt.Sprintf("%s (%q): underline colour %v, reference %v", where, ref.G, emuColor(emu.Style.UnderlineColor), ref.Style.Ul)
			}
		}
	}
	if s.CursorRow != t.C.Row || s.CursorCol != t.C.Col {
		return fmt.Sprintf("cursor at row %d col %d, a VT/xterm has it at row %d col %d", s.CursorRow, s.CursorCol, t.C.Row, t.C.Col)
	}
	return ""
}

func dump(s term.VerifState, t *refterm.Term) string {
	var a, b strings.Builder
	t.Lock()
	defer t.Unlock()
	for r := 0; r < s.Rows; r++ {
		a.WriteString("[")
		b.WriteString("[")
		for c := 0; c < s.Cols; c++ {
			g := s.Active[r][c].Grapheme
			if blankG(g) {
				g = "·"
			}
			a.WriteString(g)
			rc := t.Grid()[r][c]
			switch {
			case rc.W == 0:
				b.WriteString("<")
			case blankG(rc.G):
				b.WriteString("·")
			default:
				b.WriteString(rc.G)
			}
		}
		a.WriteString("]")
		b.WriteString("]")
	}
	return fmt.Sprintf("emulator %s cursor (%d,%d) | reference %s cursor (%d,%d)", a.String(), s.CursorRow, s.CursorCol, b.String(), t.C.Row, t.C.Col)
}

func run(c Case) string {
	e, err := termdrive.New(c.Cols, c.Rows)
	if err != nil {
		return ""
	}
	defer e.Close()
	ref := refterm.New(c.Cols, c.Rows, refterm.Caps{})
	ref.Method = 2 // grapheme-cluster widths, like the parser feeding the emulator
	for i, op := range c.Ops {
		b := []byte(op.Bytes())
		ref.Lock()
		pending := ref.PendingWrap
		ref.Unlock()
		if pending && !allowedInPendingWrap(op) {
			// outside the constrained behaviour: stop comparing here
			return ""
		}
		if _, p := e.Feed(b); p != "" {
			return fmt.Sprintf("op %d %v: %s", i, op, p)
		}
		_, _ = ref.Write(b)
		s := e.M.VerifSnapshot()
		if msg := compare(s, ref); msg != "" {
			return fmt.Sprintf("after op %d %v: %s; %s", i, op, msg, dump(s, ref))
		}
	}
	return ""
}

// ---------------------------------------------------------------------------

var sgrs = []string{"", "0", "1", "7", "4", "9", "31", "42", "1;44", "38;5;200", "48;2;1;2;3", "38:2:9:8:7", "22", "27", "24", "39", "49", "4:3", "58:5:9", "7;41"}

func genParam(rt *rapid.T, size int) int {
	switch rapid.IntRange(0, 9).Draw(rt, "pk") {
	case 0, 1:
		return -1
	case 2:
		return 0
	case 3, 4:
		return 1
	case 5:
		return 2
	default:
		return rapid.IntRange(0, size+2).Draw(rt, "pv")
	}
}

var csiRow = []string{"A", "B", "E", "F", "d", "L", "M", "S", "T"}
var csiCol = []string{"C", "D", "G", "`", "X", "@", "P"}

func genOp(rt *rapid.T, cols, rows int) Op {
	switch rapid.IntRange(0, 17).Draw(rt, "op") {
	case 0, 1, 2, 3:
		n := rapid.IntRange(1, cols+2).Draw(rt, "n")
		if rapid.Bool().Draw(rt, "short") {
			n = rapid.IntRange(1, 2).Draw(rt, "n1")
		}
		var sb strings.Builder
		for i := 0; i < n; i++ {
			sb.WriteString(rapid.SampledFrom([]string{"a", "b", "c", "x", "宽", "世"}).Draw(rt, "ch"))
		}
		return Op{K: "print", T: sb.String()}
	case 4:
		return Op{K: rapid.SampledFrom([]string{"cr", "lf", "lf", "ind", "ri", "nel"}).Draw(rt, "c0")}
	case 5:
		return Op{K: rapid.SampledFrom([]string{"sc", "rc", "alton", "altoff"}).Draw(rt, "misc")}
	case 6, 7, 8:
		return Op{K: "csi", F: rapid.SampledFrom(csiRow).Draw(rt, "fr"), P: []int{genParam(rt, rows)}}
	case 9, 10, 11:
		return Op{K: "csi", F: rapid.SampledFrom(csiCol).Draw(rt, "fc"), P: []int{genParam(rt, cols)}}
	case 12:
		return Op{K: "csi", F: rapid.SampledFrom([]string{"J", "K"}).Draw(rt, "fe"), P: []int{rapid.SampledFrom([]int{-1, 0, 1, 2}).Draw(rt, "pe")}}
	case 13, 14:
		f := rapid.SampledFrom([]string{"H", "f"}).Draw(rt, "fh")
		switch rapid.IntRange(0, 3).Draw(rt, "np") {
		case 0:
			return Op{K: "csi", F: f}
		case 1:
			return Op{K: "csi", F: f, P: []int{genParam(rt, rows)}}
		}
		return Op{K: "csi", F: f, P: []int{genParam(rt, rows), genParam(rt, cols)}}
	case 15:
		switch rapid.IntRange(0, 3).Draw(rt, "nr") {
		case 0:
			return Op{K: "csi", F: "r"}
		case 1:
			return Op{K: "csi", F: "r", P: []int{genParam(rt, rows)}}
		}
		return Op{K: "csi", F: "r", P: []int{genParam(rt, rows), genParam(rt, rows)}}
	default:
		return Op{K: "sgr", T: rapid.SampledFrom(sgrs).Draw(rt, "sgr")}
	}
}

func nontrivial(c Case) bool {
	changed := false
	for _, o := range c.Ops {
		if o.K == "csi" && strings.Contains("rLMST@P", o.F) || o.K == "alton" {
			changed = true
		} else if changed && (o.K == "print" || (o.K == "csi" && strings.Contains("JKX", o.F))) {
			return true
		}
	}
	return false
}

// genCase draws a size and a sequence of operations.
func genCase(rt *rapid.T, sub string) Case {
	c := Case{Cols: rapid.IntRange(2, 8).Draw(rt, "cols"), Rows: rapid.IntRange(2, 6).Draw(rt, "rows")}
	k := rapid.IntRange(1, harness.Scale(30, 60)).Draw(rt, "nops")
	// the generator follows the reference terminal to respect the
	// deferred-wrap exemption by construction
	ref := refterm.New(c.Cols, c.Rows, refterm.Caps{})
	ref.Method = 2
	for i := 0; i < k; i++ {
		op := genOp(rt, c.Cols, c.Rows)
		if ref.PendingWrap && !allowedInPendingWrap(op) {
			harness.R.Excluded(sub, "operation other than print/CR/absolute positioning in the deferred-wrap state")
			continue
		}
		_, _ = ref.Write([]byte(op.Bytes()))
		c.Ops = append(c.Ops, op)
		harness.R.Label(sub, "op:"+op.K+op.F)
	}
	if nontrivial(c) {
		harness.R.Nontrivial(sub, c)
	}
	harness.R.Sample(sub, c)
	return c
}

func TestRandomSequences(t *testing.T) {
	const sub = "sequences"
	n := harness.PerShard(harness.Scale(150_000, 10_000_000))
	harness.Check(t, sub, n, func(rt *rapid.T) Case { return genCase(rt, sub) }, run)
}

// FuzzSequences drives the same generator and oracle from Go's coverage-guided
// fuzzer (the fuzzer mutates the bit stream rapid draws from). Thorough tier.
func FuzzSequences(f *testing.F) {
	f.Fuzz(rapid.MakeFuzz(func(rt *rapid.T) {
		c := genCase(rt, "fuzz")
		if msg := run(c); msg != "" {
			harness.FuzzSave("fuzz", msg, c)
			rt.Fatalf("%s", msg)
		}
	}))
}

// all sequences of <= 3 operations over a reduced alphabet on 2x2 and 3x2
func TestShortSequencesExhaustive(t *testing.T) {
	if harness.ReplayPath() != "" {
		t.Skip()
	}
	const sub = "short-exhaustive"
	fails := 0
	idx := 0
	for _, size := range [][2]int{{2, 2}, {3, 2}} {
		cols, rows := size[0], size[1]
		var alpha []Op
		alpha = append(alpha, Op{K: "print", T: "a"}, Op{K: "print", T: "宽"}, Op{K: "print", T: "ab"}, Op{K: "print", T: strings.Repeat("x", cols)},
			Op{K: "cr"}, Op{K: "lf"}, Op{K: "ind"}, Op{K: "ri"}, Op{K: "nel"}, Op{K: "sc"}, Op{K: "rc"}, Op{K: "alton"}, Op{K: "altoff"},
			Op{K: "sgr", T: "41"}, Op{K: "sgr", T: "7"}, Op{K: "sgr", T: "0"})
		for _, f := range []string{"A", "B", "C", "D", "E", "F", "G", "d", "`", "X", "@", "P", "L", "M", "S", "T"} {
			for _, p := range []int{-1, 0, 1, 2, 3} {
				alpha = append(alpha, Op{K: "csi", F: f, P: []int{p}})
			}
		}
		for _, f := range []string{"J", "K"} {
			for _, p := range []int{-1, 0, 1, 2} {
				alpha = append(alpha, Op{K: "csi", F: f, P: []int{p}})
			}
		}
		for _, p := range [][]int{nil, {0, 0}, {1, 1}, {2, 2}, {rows, cols}, {rows + 1, cols + 1}, {2}, {-1, 2}} {
			alpha = append(alpha, Op{K: "csi", F: "H", P: p})
		}
		for _, p := range [][]int{nil, {0, 0}, {1, 2}, {2, 2}, {1, rows}, {2, rows + 1}, {rows, 1}, {2}} {
			alpha = append(alpha, Op{K: "csi", F: "r", P: p})
		}
		depth := 3
		if !harness.Thorough() && cols == 3 {
			depth = 2
		}
		var rec func(prefix []Op)
		rec = func(prefix []Op) {
			if fails > 3 {
				return
			}
			if len(prefix) > 0 {
				idx++
				if harness.Mine(idx) {
					c := Case{Cols: cols, Rows: rows, Ops: append([]Op{}, prefix...)}
					// probe: a print after the sequence makes wrap state and margins observable
					c.Ops = append(c.Ops, Op{K: "print", T: "z"})
					harness.R.Eval(sub)
					if nontrivial(c) {
						harness.R.Nontrivial(sub, c)
					}
					if idx%20000 == 1 {
						harness.R.Sample(sub, c)
					}
					if msg := run(c); msg != "" {
						fails++
						harness.Fail(t, sub, msg, c)
					}
				}
			}
			if len(prefix) == depth {
				return
			}
			for _, a := range alpha {
				rec(append(prefix, a))
			}
		}
		rec(nil)
	}
	if fails == 0 {
		harness.R.Exhaustive(sub)
	}
}

// refterm's own conformance vectors for this vocabulary (hand-derived from ctlseqs)
func TestReftermVectors(t *testing.T) {
	if harness.ReplayPath() != "" {
		t.Skip()
	}
	for _, v := range refterm.Vectors {
		if msg := refterm.RunVector(v); msg != "" {
			t.Errorf("refterm vector %q: %s", v.Name, msg)
		}
	}
}

func TestReplay(t *testing.T) {
	r := harness.Decode(run)
	harness.ReplayAll(t, map[string]harness.Runner{"fuzz": r, "sequences": r, "short-exhaustive": r})
}
