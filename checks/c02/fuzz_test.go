package c02

import (
	"testing"

	"verif/internal/harness"
	"verif/internal/vtref"
)

// FuzzParser is the coverage-guided companion of the enumerators: arbitrary
// bytes and an arbitrary read chunking, the same differential oracle (vtref)
// inside the target. Thorough tier only; Go's fuzzer cannot be seeded, the
// saved failing input is the reproducible unit.
func FuzzParser(f *testing.F) {
	for _, v := range vtref.Vectors {
		f.Add([]byte(v.In), uint32(0))
		f.Add([]byte(v.In), uint32(0xAAAAAAAA))
	}
	for _, s := range []string{
		"\x1b[1;2:3;4:5:6m", "\x1b]8;;http://x\x1b\\a\x1b]8;;\x07", "\x1bP1$r0 q\x1b\\", "\x1b_Gi=1;AAAA\x1b\\",
		"\x1b[200~paste\x1b[201~", "\x1bOA\x1bOP", "\x1b\x1b[A", "\x18\x1a\x1b", "\xc3\xa9\xe5\xae\xbd\xf0\x9f\x98\x80", "\xff\xfe\xc3", "\x1b[<0;1;1M\x1b[<0;1;1m",
		"\x1b[900000000000000000000A\x1b[1;99999999999999999999999:18446744073709551616m", "\x1b]11;rgb:0000/0000/0000\x1b\\", "\x1bX sos \x1b\\", "\x1b^ pm \x07", "\x1b[?1;2c\x1b[>1;2;3c", "\x1b[97;5u\x1b[27;2;13~",
	} {
		f.Add([]byte(s), uint32(0))
		f.Add([]byte(s), uint32(0x55555555))
	}
	f.Fuzz(func(t *testing.T, data []byte, mask uint32) {
		if len(data) > 256 {
			data = data[:256]
		}
		c := Case{Stream: append([]byte{}, data...)}
		// bit i of the mask (cyclically) cuts the read after byte i
		for i := 1; i < len(data); i++ {
			if mask&(1<<(uint(i)%32)) != 0 {
				c.Splits = append(c.Splits, i)
			}
		}
		if msg := run(c); msg != "" {
			harness.FuzzFail(t, "fuzz", msg, c)
		}
	})
}
