package c02

import (
	"fmt"
	"os"
	"testing"

	"pgregory.net/rapid"

	"verif/internal/harness"
	"verif/internal/pdrive"
	"verif/internal/pgen"
	"verif/internal/vtref"
)

func TestMain(m *testing.M) { harness.Main(m, "C02") }

// Case is a stream and the offsets at which reads end.
type Case struct {
	Stream []byte `json:"stream"`
	Splits []int  `json:"splits"`
	Note   string `json:"note,omitempty"`
}

// probe suffix: every kind of sequence once, so state leaking out of the
// head of the stream shows up as a wrong parameter, intermediate or payload.
const suffix = "\x1b\\\x1b[1;2:3m" + "Z" + "\x1b]o\x1b\\" + "\x1bP1$qd\x1b\\" + "\x1b_g\x1b\\" + "\x1bOA" + "\x1b(B" + "\x1b[?25h"

var suffixRef = vtref.Parse([]byte(suffix))

func ref(b []byte) vtref.Result {
	return vtref.ParseOpt(b, vtref.Options{DeliverSTAfterEmptyString: harness.Known("C02-A2")})
}

func runOnce(c Case) string {
	ref := ref(c.Stream)
	if ref.Undefined {
		// weak contract: survives, terminates, resynchronises after CAN
		full := append(append(append([]byte{}, c.Stream...), 0x18), suffix...)
		out := pdrive.Run(full, c.Splits, true)
		if msg := pdrive.Lifecycle(out); msg != "" {
			return msg
		}
		return pdrive.Tail(suffixRef, out.Items, out.Ends, len(c.Stream)+1)
	}
	out := pdrive.Run(c.Stream, c.Splits, true)
	if msg := pdrive.Lifecycle(out); msg != "" {
		return msg
	}
	return pdrive.Compare(ref, out.Items, out.Ends)
}

// run re-confirms a failure twice (DESIGN §2.6: the parser's 10 ms Escape
// timer can fire on an overloaded machine; a real defect fails every time).
func run(c Case) string {
	msg := runOnce(c)
	if msg == "" {
		return ""
	}
	for i := 0; i < 2; i++ {
		if m2 := runOnce(c); m2 == "" {
			harness.R.Label("confirm", "failure-not-reproduced")
			return ""
		}
	}
	return fmt.Sprintf("%s [stream %q splits %v]", msg, c.Stream, c.Splits)
}

func classify(sub string, c Case) {
	ref := ref(c.Stream)
	if ref.Undefined {
		harness.R.Label(sub, "outside-model(weak contract)")
		return
	}
	if ref.Complete >= 1 && (ref.Cancelled >= 1 || ref.Complete >= 2) {
		harness.R.Nontrivial(sub, c)
		harness.R.Label(sub, "nontrivial")
	}
	if ref.Cancelled > 0 {
		harness.R.Label(sub, "has-cancelled")
	}
	if len(c.Splits) > 0 {
		harness.R.Label(sub, "split-reads")
	}
	harness.R.Sample(sub, map[string]any{"stream": fmt.Sprintf("%q", c.Stream), "splits": c.Splits})
}

// ---- bounded-exhaustive over one representative per byte class

var alphabet = []string{
	"\x1b", "\x18", "\x07", "\n", "[", "]", "P", "_", "X", "O", "\\",
	"0", ";", ":", "?", " ", "m", "~", "a", "\x7f", "é", "\xff",
}

func TestExhaustive(t *testing.T) {
	if harness.ReplayPath() != "" {
		t.Skip()
	}
	const sub = "exhaustive"
	maxLen := harness.Scale(4, 5)
	idx := 0
	fails := 0
	var rec func(prefix []byte, depth int)
	rec = func(prefix []byte, depth int) {
		if fails > 3 {
			return
		}
		if depth > 0 {
			idx++
			if harness.Mine(idx) {
				head := append([]byte{}, prefix...)
				stream := append(head, suffix...)
				// variant 1: one read; variant 2: byte-at-a-time over the head
				variants := []Case{{Stream: stream}}
				if idx%3 == 0 {
					var sp []int
					for i := 1; i <= len(prefix)+2; i++ {
						sp = append(sp, i)
					}
					variants = append(variants, Case{Stream: stream, Splits: sp})
				}
				for _, c := range variants {
					harness.R.Eval(sub)
					classify(sub, c)
					if msg := run(c); msg != "" {
						fails++
						harness.Fail(t, sub, msg, c)
					}
				}
			}
		}
		if depth == maxLen {
			return
		}
		for _, a := range alphabet {
			rec(append(prefix, a...), depth+1)
		}
	}
	rec(nil, 0)
	if fails == 0 {
		harness.R.Exhaustive(sub)
	}
}

// ---- grammar streams and raw bytes

func genCase(rt *rapid.T) Case {
	stream := pgen.Stream(rt, 12)
	stream = append(stream, suffix...)
	return Case{Stream: stream, Splits: pgen.Splits(rt, len(stream))}
}

func TestGrammar(t *testing.T) {
	const sub = "grammar"
	n := harness.PerShard(harness.Scale(400_000, 8_000_000))
	harness.Check(t, sub, n, func(rt *rapid.T) Case {
		c := genCase(rt)
		classify(sub, c)
		return c
	}, run)
}

func TestRaw(t *testing.T) {
	const sub = "raw"
	n := harness.PerShard(harness.Scale(200_000, 4_000_000))
	harness.Check(t, sub, n, func(rt *rapid.T) Case {
		b := pgen.RawBytes(rt, 40)
		b = append(b, suffix...)
		c := Case{Stream: b, Splits: pgen.Splits(rt, len(b))}
		classify(sub, c)
		return c
	}, run)
}

// long single-read streams cross the reader's 4096-byte buffer
func TestLong(t *testing.T) {
	const sub = "long"
	n := harness.PerShard(harness.Scale(3_000, 60_000))
	harness.Check(t, sub, n, func(rt *rapid.T) Case {
		var stream []byte
		k := rapid.IntRange(20, 120).Draw(rt, "tokens")
		for len(stream) < 5000 && k > 0 {
			stream = append(stream, pgen.Stream(rt, 8)...)
			k--
		}
		c := Case{Stream: stream, Splits: pgen.Splits(rt, len(stream))}
		classify(sub, c)
		return c
	}, run)
}

// vtref's own conformance vectors (hand-derived from the diagram)
func TestVtrefVectors(t *testing.T) {
	if harness.ReplayPath() != "" {
		t.Skip()
	}
	for _, v := range vtref.Vectors {
		got := vtref.Parse([]byte(v.In))
		s := fmt.Sprint(got.Items)
		if s != v.Want {
			t.Errorf("vtref vector %q: got %s want %s", v.In, s, v.Want)
			fmt.Fprintf(os.Stderr, "vtref self-test failed\n")
		}
	}
}

func TestReplay(t *testing.T) {
	r := harness.Decode(run)
	harness.ReplayAll(t, map[string]harness.Runner{"exhaustive": r, "grammar": r, "raw": r, "long": r, "fuzz": r})
}
