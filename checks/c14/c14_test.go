package c14

import (
	"fmt"
	"strings"
	"testing"
	"time"

	vaxis "git.sr.ht/~rockorager/vaxis"
	"git.sr.ht/~rockorager/vaxis/vxfw"
	"git.sr.ht/~rockorager/vaxis/vxfw/button"
	"git.sr.ht/~rockorager/vaxis/vxfw/center"
	vlist "git.sr.ht/~rockorager/vaxis/vxfw/list"
	"git.sr.ht/~rockorager/vaxis/vxfw/richtext"
	"git.sr.ht/~rockorager/vaxis/vxfw/text"
	"git.sr.ht/~rockorager/vaxis/vxfw/textfield"
	"pgregory.net/rapid"

	"verif/internal/appdrive"
	"verif/internal/harness"
	"verif/internal/refterm"
)

func TestMain(m *testing.M) { harness.Main(m, "C14") }

const unbounded = 65535

func guard(f func()) (p string) {
	defer func() {
		if r := recover(); r != nil {
			p = fmt.Sprint(r)
		}
	}()
	f()
	return ""
}

// ---------------------------------------------------------------------------
// contract: every built-in widget, every constraint

type WSpec struct {
	Kind   string   `json:"kind"` // text textnw rich richnw center button textfield dynamic
	Tokens []string `json:"tokens,omitempty"`
	Repeat int      `json:"repeat,omitempty"` // the content is Tokens repeated this many times (0 = once)
	Child  *WSpec   `json:"child,omitempty"`
	Items  []WSpec  `json:"items,omitempty"`
	Gap    int      `json:"gap,omitempty"`
	Gutter bool     `json:"gutter,omitempty"`
	Cursor int      `json:"cursor,omitempty"`
}

type ContractCase struct {
	W    WSpec `json:"w"`
	MaxW int   `json:"max_w"`
	MaxH int   `json:"max_h"`
	MinW int   `json:"min_w"`
	MinH int   `json:"min_h"`
	// Prior: the same widget instance was drawn with this maximum before
	// (a window that changed its size); nil = not drawn before
	Prior *[2]int `json:"prior,omitempty"`
}

func (w WSpec) content() string {
	s := strings.Join(w.Tokens, "")
	if w.Repeat > 1 {
		s = strings.Repeat(s, w.Repeat)
	}
	return s
}

func build(w WSpec) vxfw.Widget {
	switch w.Kind {
	case "text", "textnw":
		t := text.New(w.content())
		t.Softwrap = w.Kind == "text"
		return t
	case "rich", "richnw":
		var segs []vaxis.Segment
		toks := w.Tokens
		if w.Repeat > 1 {
			toks = []string{w.content()}
		}
		for i, tok := range toks {
			st := vaxis.Style{}
			if i%2 == 1 {
				st.Attribute = vaxis.AttrBold
			}
			segs = append(segs, vaxis.Segment{Text: tok, Style: st})
		}
		r := richtext.New(segs)
		r.Softwrap = w.Kind == "rich"
		return r
	case "center":
		return &center.Center{Child: build(*w.Child)}
	case "button":
		return button.New(w.content(), func() (vxfw.Command, error) { return nil, nil })
	case "textfield":
		tf := textfield.New()
		tf.InsertStringAtCursor(w.content())
		tf.CursorTo(uint(w.Cursor))
		return tf
	case "dynamic":
		items := make([]vxfw.Widget, len(w.Items))
		for i := range w.Items {
			items[i] = build(w.Items[i])
		}
		d := &vlist.Dynamic{Gap: w.Gap, DrawCursor: w.Gutter}
		d.Builder = func(i uint, cursor uint) vxfw.Widget {
			if int(i) >= len(items) {
				return nil
			}
			return items[i]
		}
		if len(items) > 0 {
			d.SetCursor(uint(w.Cursor % len(items)))
		}
		return d
	}
	panic("unknown kind " + w.Kind)
}

// checkTree: every surface's buffer can hold its size.
func checkTree(s vxfw.Surface, path string) string {
	need := int(s.Size.Width) * int(s.Size.Height)
	if len(s.Buffer) < need {
		return fmt.Sprintf("surface %s of size %dx%d has a buffer of %d cells, needs %d", path, s.Size.Width, s.Size.Height, len(s.Buffer), need)
	}
	for i, ch := range s.Children {
		if m := checkTree(ch.Surface, fmt.Sprintf("%s/%d", path, i)); m != "" {
			return m
		}
	}
	return ""
}

func absDiff(a, b int) int {
	if a > b {
		return a - b
	}
	return b - a
}

// checkSpec walks the widget spec and the surface it produced together.
func checkSpec(w WSpec, s vxfw.Surface, max vxfw.Size, path string) string {
	if !max.HasUnboundedWidth() && s.Size.Width > max.Width {
		return fmt.Sprintf("%s (%s): surface is %d wide, the maximum was %d", path, w.Kind, s.Size.Width, max.Width)
	}
	if !max.HasUnboundedHeight() && s.Size.Height > max.Height {
		return fmt.Sprintf("%s (%s): surface is %d high, the maximum was %d", path, w.Kind, s.Size.Height, max.Height)
	}
	switch w.Kind {
	case "center", "button":
		if len(s.Children) != 1 {
			return fmt.Sprintf("%s (%s): %d children, want the one centred child", path, w.Kind, len(s.Children))
		}
		ch := s.Children[0]
		cw, chh := int(ch.Surface.Size.Width), int(ch.Surface.Size.Height)
		pw, ph := int(s.Size.Width), int(s.Size.Height)
		if cw <= pw && chh <= ph {
			harness.R.Label("contract", "centred child fits")
			left, top := ch.Origin.Col, ch.Origin.Row
			right, bottom := pw-left-cw, ph-top-chh
			if left < 0 || top < 0 || right < 0 || bottom < 0 {
				return fmt.Sprintf("%s (%s): child %dx%d at (%d,%d) is not inside its %dx%d parent", path, w.Kind, cw, chh, left, top, pw, ph)
			}
			if absDiff(left, right) > 1 || absDiff(top, bottom) > 1 {
				return fmt.Sprintf("%s (%s): child %dx%d at (%d,%d) in a %dx%d parent: margins left %d right %d top %d bottom %d", path, w.Kind, cw, chh, left, top, pw, ph, left, right, top, bottom)
			}
		} else {
			harness.R.Label("contract", "centred child does not fit")
		}
		if w.Kind == "center" {
			return checkSpec(*w.Child, ch.Surface, max, path+"/child")
		}
	}
	return ""
}

func runContract(c ContractCase) string {
	var w vxfw.Widget
	if p := guard(func() { w = build(c.W) }); p != "" {
		return "building the widget panicked: " + p
	}
	ctx := vxfw.DrawContext{
		Min:        vxfw.Size{Width: uint16(c.MinW), Height: uint16(c.MinH)},
		Max:        vxfw.Size{Width: uint16(c.MaxW), Height: uint16(c.MaxH)},
		Characters: vaxis.Characters,
	}
	// several times with the same instance: each draw sees whatever state
	// the draws before it left behind; the contract holds for every one
	ctxs := []vxfw.DrawContext{ctx, ctx}
	if c.Prior != nil {
		prior := ctx
		prior.Max = vxfw.Size{Width: uint16(c.Prior[0]), Height: uint16(c.Prior[1])}
		prior.Min = vxfw.Size{}
		ctxs = []vxfw.DrawContext{prior, ctx, prior, ctx}
	}
	for _, ctx := range ctxs {
		var s vxfw.Surface
		var err error
		if p := guard(func() { s, err = w.Draw(ctx) }); p != "" {
			return fmt.Sprintf("%s.Draw(max %dx%d) panicked: %s", c.W.Kind, ctx.Max.Width, ctx.Max.Height, p)
		}
		if err != nil {
			return fmt.Sprintf("%s.Draw(max %dx%d) returned an error: %v", c.W.Kind, ctx.Max.Width, ctx.Max.Height, err)
		}
		if m := checkTree(s, "root"); m != "" {
			return m
		}
		if m := checkSpec(c.W, s, ctx.Max, "root"); m != "" {
			return m
		}
	}
	return ""
}

var textTokens = []string{"a", "a", "b", "cc", " ", " ", "\n", "\n", "宽", "e\u0301", "😀"}

func genTokens(rt *rapid.T, maxH int) []string {
	var toks []string
	switch rapid.IntRange(0, 5).Draw(rt, "content-kind") {
	case 0:
		return nil
	case 1, 2:
		// exactly maxH + {0,1,2} lines
		if maxH > 40 {
			maxH = rapid.IntRange(0, 6).Draw(rt, "lines-base")
		}
		n := maxH + rapid.IntRange(0, 2).Draw(rt, "extra-lines")
		for i := 0; i < n; i++ {
			toks = append(toks, rapid.SampledFrom([]string{"a", "bb", "宽", ""}).Draw(rt, "line"))
			if i < n-1 || rapid.Bool().Draw(rt, "final-lf") {
				toks = append(toks, "\n")
			}
		}
		return toks
	default:
		k := rapid.IntRange(1, 30).Draw(rt, "ntok")
		for i := 0; i < k; i++ {
			toks = append(toks, rapid.SampledFrom(textTokens).Draw(rt, "tok"))
		}
		return toks
	}
}

var dims = []int{0, 0, 1, 1, 2, 2, 3, 3, 4, 5, 7, 7, 20, 20, 80, 300, 400, 1000, 65534, unbounded}

func genLeaf(rt *rapid.T, maxH int, kinds []string) WSpec {
	w := WSpec{Kind: rapid.SampledFrom(kinds).Draw(rt, "kind")}
	w.Tokens = genTokens(rt, maxH)
	if w.Kind == "textfield" {
		var t []string
		for _, x := range w.Tokens {
			if x != "\n" {
				t = append(t, x)
			}
		}
		w.Tokens = t
		w.Cursor = rapid.IntRange(0, 12).Draw(rt, "cursor")
	}
	if w.Kind == "button" {
		// a label is one line
		var t []string
		for _, x := range w.Tokens {
			if x != "\n" {
				t = append(t, x)
			}
		}
		w.Tokens = t
	}
	return w
}

func genWidget(rt *rapid.T, depth int, maxH int, bounded bool) WSpec {
	leaves := []string{"text", "textnw", "rich", "richnw", "textfield"}
	if bounded {
		leaves = append(leaves, "button")
	}
	if depth <= 0 || !bounded {
		return genLeaf(rt, maxH, leaves)
	}
	switch rapid.IntRange(0, 5).Draw(rt, "shape") {
	case 0, 1:
		ch := genWidget(rt, depth-1, maxH, true)
		return WSpec{Kind: "center", Child: &ch}
	case 2:
		w := WSpec{Kind: "dynamic", Gap: rapid.IntRange(0, 2).Draw(rt, "gap"), Gutter: rapid.Bool().Draw(rt, "gutter"), Cursor: rapid.IntRange(0, 5).Draw(rt, "dcur")}
		k := rapid.IntRange(0, 5).Draw(rt, "nitems")
		for i := 0; i < k; i++ {
			// items are drawn with unbounded height
			w.Items = append(w.Items, genLeaf(rt, 3, []string{"text", "textnw", "rich", "richnw", "textfield"}))
		}
		return w
	default:
		return genLeaf(rt, maxH, leaves)
	}
}

func usesMaxSize(w WSpec) bool {
	switch w.Kind {
	case "center", "button", "dynamic":
		return true
	}
	return false
}

func TestContract(t *testing.T) {
	const sub = "contract"
	n := harness.PerShard(harness.Scale(40_000, 2_000_000))
	harness.Check(t, sub, n, func(rt *rapid.T) Case {
		c := ContractCase{MaxW: rapid.SampledFrom(dims).Draw(rt, "maxw"), MaxH: rapid.SampledFrom(dims).Draw(rt, "maxh")}
		bounded := c.MaxW != unbounded && c.MaxH != unbounded
		// widgets which return a surface of the maximum size must be able to
		// allocate it
		area := c.MaxW * c.MaxH
		big := area > 1<<17
		c.W = genWidget(rt, 2, c.MaxH, bounded && !big)
		if rapid.IntRange(0, 120).Draw(rt, "huge") == 61 && !usesMaxSize(c.W) && c.W.Kind != "textfield" {
			// a very long content: more than 65 535 columns or lines
			c.W.Tokens = []string{rapid.SampledFrom([]string{"a", "a\n", "宽", "ab cd "}).Draw(rt, "huge-unit")}
			c.W.Repeat = 66_000
			if c.W.Kind == "rich" {
				// (RichText's soft-wrap scanner is quadratic in the content)
				c.W.Repeat = 1_500
			}
		}
		if c.W.Kind == "textfield" && c.MaxW > 1<<18 {
			c.MaxW = 300
		}
		if bounded && !big && c.W.Repeat == 0 && rapid.IntRange(0, 2).Draw(rt, "redrawn") != 0 {
			// the same instance drawn before with another maximum: the same
			// width and another height, or another small size
			pw := c.MaxW
			if rapid.IntRange(0, 3).Draw(rt, "prior-other-width") == 1 {
				pw = rapid.SampledFrom([]int{0, 1, 2, 3, 5, 7, 20}).Draw(rt, "pw")
			}
			ph := rapid.SampledFrom([]int{0, 1, 2, 3, 4, 5, 7, 40}).Draw(rt, "ph")
			if pw*ph <= 1<<17 {
				c.Prior = &[2]int{pw, ph}
				harness.R.Label(sub, "same instance drawn before with another maximum")
			}
		}
		c.MinW = rapid.SampledFrom([]int{0, 0, 1, c.MaxW}).Draw(rt, "minw")
		c.MinH = rapid.SampledFrom([]int{0, 0, 1, c.MaxH}).Draw(rt, "minh")
		cc := Case{Contract: &c}
		lines := strings.Count(c.W.content(), "\n") + 1
		if c.W.Kind == "center" || c.W.Kind == "dynamic" || lines > c.MaxH || c.MaxW < 3 || area > 65535 {
			harness.R.Nontrivial(sub, cc)
		}
		if area > 65535 && usesMaxSize(c.W) {
			harness.R.Label(sub, "max-sized surface with more than 65535 cells")
		}
		harness.R.Label(sub, "root "+c.W.Kind)
		if c.W.Repeat == 0 {
			harness.R.Sample(sub, cc)
		} else {
			harness.R.Label(sub, "content of more than 65535 columns or lines")
		}
		return cc
	}, run)
}

// ---------------------------------------------------------------------------
// addressing: WriteCell changes exactly the addressed cell

type AddrCase struct {
	W      int      `json:"w"`
	H      int      `json:"h"`
	Writes [][2]int `json:"writes"` // col,row
}

func runAddr(c AddrCase) string {
	var s vxfw.Surface
	if p := guard(func() { s = vxfw.NewSurface(uint16(c.W), uint16(c.H), nil) }); p != "" {
		return fmt.Sprintf("NewSurface(%d,%d) panicked: %s", c.W, c.H, p)
	}
	if len(s.Buffer) < c.W*c.H {
		return fmt.Sprintf("NewSurface(%d,%d) has a buffer of %d cells, needs %d", c.W, c.H, len(s.Buffer), c.W*c.H)
	}
	if int(s.Size.Width) != c.W || int(s.Size.Height) != c.H {
		return fmt.Sprintf("NewSurface(%d,%d) has size %v", c.W, c.H, s.Size)
	}
	model := map[int]string{}
	for i, wr := range c.Writes {
		col, row := wr[0], wr[1]
		g := fmt.Sprintf("w%d", i)
		cell := vaxis.Cell{Character: vaxis.Character{Grapheme: g, Width: 1}}
		if p := guard(func() { s.WriteCell(uint16(col), uint16(row), cell) }); p != "" {
			return fmt.Sprintf("WriteCell(%d,%d) on a %dx%d surface panicked: %s", col, row, c.W, c.H, p)
		}
		if col < c.W && row < c.H {
			idx := row*c.W + col
			model[idx] = g
			if s.Buffer[idx].Grapheme != g {
				return fmt.Sprintf("WriteCell(%d,%d) on a %dx%d surface did not write cell %d (it holds %q)", col, row, c.W, c.H, idx, s.Buffer[idx].Grapheme)
			}
		}
	}
	for i := range s.Buffer {
		if s.Buffer[i].Grapheme != model[i] {
			return fmt.Sprintf("after the writes %v on a %dx%d surface, buffer cell %d (col %d,row %d) holds %q, want %q", c.Writes, c.W, c.H, i, i%max(c.W, 1), i/max(c.W, 1), s.Buffer[i].Grapheme, model[i])
		}
	}
	return ""
}

func TestAddressing(t *testing.T) {
	const sub = "addressing"
	n := harness.PerShard(harness.Scale(40_000, 2_000_000))
	sizes := [][2]int{{256, 256}, {300, 300}, {65535, 1}, {1, 65535}, {257, 255}, {255, 257}, {32768, 2}, {2, 32768}, {65535, 3}, {400, 200}, {512, 128}, {256, 255}}
	harness.Check(t, sub, n, func(rt *rapid.T) Case {
		var c AddrCase
		if rapid.IntRange(0, 3).Draw(rt, "big") == 0 {
			s := rapid.SampledFrom(sizes).Draw(rt, "size")
			c.W, c.H = s[0], s[1]
		} else {
			c.W, c.H = rapid.IntRange(0, 6).Draw(rt, "w"), rapid.IntRange(0, 6).Draw(rt, "h")
		}
		coord := func(label string, size int) int {
			switch rapid.IntRange(0, 9).Draw(rt, label+"-kind") {
			case 0:
				return 0
			case 1:
				return max(size-1, 0)
			case 2, 3:
				return size
			case 4:
				return min(size+1, 65535)
			case 5:
				return 65535
			case 6:
				return rapid.IntRange(0, 65535).Draw(rt, label+"-any")
			default:
				return rapid.IntRange(0, max(size-1, 0)).Draw(rt, label)
			}
		}
		k := rapid.IntRange(1, 8).Draw(rt, "nwrites")
		nt := false
		for i := 0; i < k; i++ {
			col, row := coord("col", c.W), coord("row", c.H)
			if col >= c.W || row >= c.H || row*c.W+col > 65535 {
				nt = true
			}
			c.Writes = append(c.Writes, [2]int{col, row})
		}
		cc := Case{Addr: &c}
		if nt {
			harness.R.Nontrivial(sub, cc)
		}
		if c.W*c.H > 65535 {
			harness.R.Label(sub, "more than 65535 cells")
		}
		harness.R.Sample(sub, cc)
		return cc
	}, run)
}

// ---------------------------------------------------------------------------
// paint: a surface tree rendered by App.Run

type SurfSpec struct {
	W     int       `json:"w"`
	H     int       `json:"h"`
	Fill  string    `json:"fill"`
	Bg    int       `json:"bg"`
	Holes [][2]int  `json:"holes,omitempty"` // cells never written (left as the zero cell)
	Kids  []KidSpec `json:"kids,omitempty"`
}

type KidSpec struct {
	Col int      `json:"col"`
	Row int      `json:"row"`
	Z   int      `json:"z"`
	S   SurfSpec `json:"s"`
}

type PaintCase struct {
	Cols int      `json:"cols"`
	Rows int      `json:"rows"`
	Root SurfSpec `json:"root"`
}

type dummy struct{ name string }

func (d *dummy) HandleEvent(vaxis.Event, vxfw.EventPhase) (vxfw.Command, error) { return nil, nil }
func (d *dummy) Draw(vxfw.DrawContext) (vxfw.Surface, error)                    { return vxfw.Surface{}, nil }

func buildSurface(sp SurfSpec) vxfw.Surface {
	s := vxfw.NewSurface(uint16(sp.W), uint16(sp.H), &dummy{sp.Fill})
	hole := map[[2]int]bool{}
	for _, h := range sp.Holes {
		hole[h] = true
	}
	for r := 0; r < sp.H; r++ {
		for c := 0; c < sp.W; c++ {
			if hole[[2]int{c, r}] {
				continue
			}
			s.WriteCell(uint16(c), uint16(r), vaxis.Cell{
				Character: vaxis.Character{Grapheme: sp.Fill, Width: 1},
				Style:     vaxis.Style{Background: vaxis.IndexColor(uint8(sp.Bg))},
			})
		}
	}
	for _, k := range sp.Kids {
		ss := vxfw.NewSubSurface(k.Col, k.Row, buildSurface(k.S))
		ss.ZIndex = k.Z
		s.Children = append(s.Children, ss)
	}
	return s
}

type static struct{ sp SurfSpec }

func (w *static) HandleEvent(vaxis.Event, vxfw.EventPhase) (vxfw.Command, error) { return nil, nil }
func (w *static) Draw(vxfw.DrawContext) (vxfw.Surface, error)                    { return buildSurface(w.sp), nil }

type pcell struct {
	g  string
	bg int // -1 default
}

type rect struct{ x0, y0, x1, y1 int } // half-open

func (a rect) intersect(b rect) rect {
	return rect{max(a.x0, b.x0), max(a.y0, b.y0), min(a.x1, b.x1), min(a.y1, b.y1)}
}

// paint is the statement's painting rule: own cells first, then the children
// in ascending z-order, each at its offset and clipped to its parent.
func paint(grid [][]pcell, sp SurfSpec, ax, ay int, clip rect) {
	clip = clip.intersect(rect{ax, ay, ax + sp.W, ay + sp.H})
	hole := map[[2]int]bool{}
	for _, h := range sp.Holes {
		hole[h] = true
	}
	for y := clip.y0; y < clip.y1; y++ {
		for x := clip.x0; x < clip.x1; x++ {
			if hole[[2]int{x - ax, y - ay}] {
				grid[y][x] = pcell{"", -1}
			} else {
				grid[y][x] = pcell{sp.Fill, sp.Bg}
			}
		}
	}
	kids := append([]KidSpec(nil), sp.Kids...)
	for i := 1; i < len(kids); i++ {
		for j := i; j > 0 && kids[j].Z < kids[j-1].Z; j-- {
			kids[j], kids[j-1] = kids[j-1], kids[j]
		}
	}
	for _, k := range kids {
		paint(grid, k.S, ax+k.Col, ay+k.Row, clip)
	}
}

func runPaint(c PaintCase) string {
	root := &appdrive.Root{Child: &static{c.Root}, Passthrough: true}
	app, err := appdrive.Start(c.Cols, c.Rows, refterm.Caps{Unicode2027: true, RGB: true}, root)
	if err != nil {
		return "harness: " + err.Error()
	}
	defer app.Quit(10 * time.Second)
	err = app.Frame(20 * time.Second)
	if p, ok := root.DrawPanic.Load().(string); ok {
		return "building the surface tree panicked: " + p
	}
	if err != nil {
		if p, ok := root.DrawPanic.Load().(string); ok {
			return "Draw panicked: " + p
		}
		if e, done := app.Done(); done {
			return fmt.Sprintf("App.Run ended while rendering the tree: %v", e)
		}
		return "harness: " + err.Error()
	}
	if e, done := app.Done(); done {
		return fmt.Sprintf("App.Run ended while rendering the tree: %v", e)
	}
	grid := make([][]pcell, c.Rows)
	for y := range grid {
		grid[y] = make([]pcell, c.Cols)
		for x := range grid[y] {
			grid[y][x] = pcell{"", -1}
		}
	}
	paint(grid, c.Root, 0, 0, rect{0, 0, c.Cols, c.Rows})
	app.Term.Lock()
	defer app.Term.Unlock()
	for y := 0; y < c.Rows; y++ {
		for x := 0; x < c.Cols; x++ {
			got := app.Term.Cell(y, x)
			g := got.G
			if g == " " {
				g = ""
			}
			bg := -1
			if got.Style.Bg.Kind == refterm.ColIndex {
				bg = int(got.Style.Bg.V)
			} else if got.Style.Bg.Kind != refterm.ColDefault {
				bg = -2
			}
			want := grid[y][x]
			if g != want.g || bg != want.bg || got.Poison != "" {
				return fmt.Sprintf("screen cell (col %d,row %d) shows %q bg %d %s, the tree paints %q bg %d there", x, y, got.G, bg, got.Poison, want.g, want.bg)
			}
		}
	}
	return ""
}

func genSurf(rt *rapid.T, depth int, maxW, maxH int, letter *int) SurfSpec {
	sp := SurfSpec{W: rapid.IntRange(0, maxW).Draw(rt, "w"), H: rapid.IntRange(0, maxH).Draw(rt, "h")}
	sp.Fill = string(rune('A' + *letter%26))
	sp.Bg = 1 + *letter%200
	*letter++
	if sp.W > 0 && sp.H > 0 {
		nh := rapid.IntRange(0, 2).Draw(rt, "nholes")
		for i := 0; i < nh; i++ {
			sp.Holes = append(sp.Holes, [2]int{rapid.IntRange(0, sp.W-1).Draw(rt, "hx"), rapid.IntRange(0, sp.H-1).Draw(rt, "hy")})
		}
	}
	if depth > 0 {
		k := rapid.IntRange(0, 3).Draw(rt, "nkids")
		zs := rapid.Permutation([]int{-2, -1, 0, 1, 5}).Draw(rt, "zs")
		for i := 0; i < k; i++ {
			kid := KidSpec{
				Col: rapid.IntRange(-3, sp.W+2).Draw(rt, "kcol"),
				Row: rapid.IntRange(-3, sp.H+2).Draw(rt, "krow"),
				Z:   zs[i],
			}
			kid.S = genSurf(rt, depth-1, 8, 6, letter)
			sp.Kids = append(sp.Kids, kid)
		}
	}
	return sp
}

func overlapsOrClips(sp SurfSpec) bool {
	for i, k := range sp.Kids {
		if k.Col < 0 || k.Row < 0 || k.Col+k.S.W > sp.W || k.Row+k.S.H > sp.H {
			return true
		}
		for _, o := range sp.Kids[:i] {
			if k.Col < o.Col+o.S.W && o.Col < k.Col+k.S.W && k.Row < o.Row+o.S.H && o.Row < k.Row+k.S.H {
				return true
			}
		}
		if overlapsOrClips(k.S) {
			return true
		}
	}
	return false
}

func TestPaint(t *testing.T) {
	const sub = "paint"
	n := harness.PerShard(harness.Scale(4_000, 150_000))
	harness.Check(t, sub, n, func(rt *rapid.T) Case {
		c := PaintCase{Cols: 16, Rows: 10}
		big := rapid.IntRange(0, 150).Draw(rt, "bigscreen") == 77
		if big {
			c.Cols, c.Rows = 300, 230
		}
		letter := 0
		c.Root = genSurf(rt, 3, c.Cols, c.Rows, &letter)
		switch rapid.IntRange(0, 3).Draw(rt, "rootsize") {
		case 0, 1, 2:
			c.Root.W, c.Root.H = c.Cols, c.Rows
			c.Root.Holes = nil
		}
		if big {
			// put a child near the far corner
			for i := range c.Root.Kids {
				c.Root.Kids[i].Col += c.Root.W - 10
				c.Root.Kids[i].Row += c.Root.H - 8
			}
		}
		cc := Case{Paint: &c}
		if overlapsOrClips(c.Root) {
			harness.R.Nontrivial(sub, cc)
		}
		if c.Root.W < c.Cols || c.Root.H < c.Rows {
			harness.R.Label(sub, "root surface smaller than the screen")
		}
		if big {
			harness.R.Label(sub, "screen with more than 65535 cells")
		} else {
			harness.R.Sample(sub, cc)
		}
		return cc
	}, harness.Confirm(run, 2))
}

// ---------------------------------------------------------------------------

type Case struct {
	Contract *ContractCase `json:"contract,omitempty"`
	Addr     *AddrCase     `json:"addr,omitempty"`
	Paint    *PaintCase    `json:"paint,omitempty"`
}

func run(c Case) string {
	switch {
	case c.Contract != nil:
		return runContract(*c.Contract)
	case c.Addr != nil:
		return runAddr(*c.Addr)
	case c.Paint != nil:
		return runPaint(*c.Paint)
	}
	return ""
}

func TestReplay(t *testing.T) {
	r := harness.Decode(run)
	harness.ReplayAll(t, map[string]harness.Runner{"contract": r, "addressing": r, "paint": r})
}
