package c11

import (
	"fmt"
	"math"
	"strings"
	"testing"
	"time"

	vaxis "git.sr.ht/~rockorager/vaxis"
	"pgregory.net/rapid"

	"verif/internal/harness"
	"verif/internal/refterm"
	"verif/internal/vxdrive"
	"verif/internal/widthtab"
)

func TestMain(m *testing.M) { harness.Main(m, "C11") }

// Win is one link of a window chain.
type Win struct {
	Col, Row, W, H int
	Literal        bool // built as a struct literal instead of Window.New
}

type Call struct {
	K    string   `json:"k"` // setcell setstyle fill clear print printtruncate println wrap
	Col  int      `json:"col,omitempty"`
	Row  int      `json:"row,omitempty"`
	Text []string `json:"text,omitempty"` // clusters ("\t", "\n" allowed)
}

type Case struct {
	SCols int   `json:"scols"`
	SRows int   `json:"srows"`
	Chain []Win `json:"chain"`
	Call  Call  `json:"call"`
}

type rect struct{ c0, r0, c1, r1 int } // half-open

func (a rect) intersect(b rect) rect {
	if b.c0 > a.c0 {
		a.c0 = b.c0
	}
	if b.r0 > a.r0 {
		a.r0 = b.r0
	}
	if b.c1 < a.c1 {
		a.c1 = b.c1
	}
	if b.r1 < a.r1 {
		a.r1 = b.r1
	}
	return a
}
func (a rect) contains(c, r int) bool { return c >= a.c0 && c < a.c1 && r >= a.r0 && r < a.r1 }
func (a rect) empty() bool            { return a.c0 >= a.c1 || a.r0 >= a.r1 }

var sentinel = vaxis.Cell{Character: vaxis.Character{Grapheme: "S", Width: 1}, Style: vaxis.Style{Foreground: vaxis.IndexColor(5), Background: vaxis.IndexColor(6)}}
var opStyle = vaxis.Style{Foreground: vaxis.IndexColor(2), Background: vaxis.IndexColor(3), Attribute: vaxis.AttrBold}

type session struct {
	s          *vxdrive.Session
	cols, rows int
}

func newSession(cols, rows int) (*session, error) {
	s, err := vxdrive.Start(cols, rows, refterm.Caps{}, vxdrive.Opts{DisableMouse: true})
	if err != nil {
		return nil, err
	}
	s.Sync(10 * time.Second)
	s.Drain()
	return &session{s: s, cols: cols, rows: rows}, nil
}

// build makes the window chain and computes, independently, its absolute
// origin and clip rectangle from the windows' public fields.
func build(vx *vaxis.Vaxis, sc rect, chain []Win) (vaxis.Window, rect, int, int, int, int) {
	win := vx.Window()
	clip := sc
	oc, or := 0, 0
	// the size of the parent as the documentation of New defines it, not as
	// the library computed it
	pw, ph := sc.c1-sc.c0, sc.r1-sc.r0
	for _, w := range chain {
		var next vaxis.Window
		rw, rh := w.W, w.H
		if w.Literal {
			parent := win
			next = vaxis.Window{Vx: vx, Parent: &parent, Column: w.Col, Row: w.Row, Width: w.W, Height: w.H}
		} else {
			next = win.New(w.Col, w.Row, w.W, w.H)
			// New: a negative size, or one that reaches beyond the parent,
			// means "the rest of the parent"
			// (written without the sum offset+size, which overflows for
			// sizes near the largest int)
			if w.W < 0 || w.W > pw-w.Col {
				rw = pw - w.Col
			}
			if w.H < 0 || w.H > ph-w.Row {
				rh = ph - w.Row
			}
		}
		oc += w.Col
		or += w.Row
		clip = clip.intersect(rect{oc, or, oc + rw, or + rh})
		pw, ph = rw, rh
		win = next
	}
	return win, clip, oc, or, pw, ph
}

func isSentinel(c refterm.Cell) bool {
	return c.G == "S" && c.Style.Fg == (refterm.Color{Kind: refterm.ColIndex, V: 5}) && c.Style.Bg == (refterm.Color{Kind: refterm.ColIndex, V: 6}) && c.W == 1 && c.Poison == ""
}

type placed struct {
	row, col int
	g        string
	w        int
}

func (x *session) run(c Case) string {
	vx := x.s.Vx
	vx.HideCursor()
	vx.Window().Fill(sentinel)
	vx.Refresh()
	sc := rect{0, 0, x.cols, x.rows}
	win, clip, oc, or, mw, mh := build(vx, sc, c.Chain)
	ww, wh := win.Size()
	if n := len(c.Chain); n > 0 && !c.Chain[n-1].Literal && (ww != mw || wh != mh) {
		l := c.Chain[n-1]
		return fmt.Sprintf("Window.New(%d, %d, %d, %d) gives a window of %dx%d; a negative size, or one that reaches beyond the parent, means the rest of the parent: %dx%d", l.Col, l.Row, l.W, l.H, ww, wh, mw, mh)
	}
	text := strings.Join(c.Call.Text, "")
	seg := vaxis.Segment{Text: text, Style: opStyle}
	cell := vaxis.Cell{Character: vaxis.Character{Grapheme: "x", Width: 1}, Style: opStyle}
	retCol, retRow, hasRet := 0, 0, false
	panicMsg := ""
	func() {
		defer func() {
			if r := recover(); r != nil {
				panicMsg = fmt.Sprintf("panic: %v", r)
			}
		}()
		switch c.Call.K {
		case "setcell":
			win.SetCell(c.Call.Col, c.Call.Row, cell)
		case "setstyle":
			win.SetStyle(c.Call.Col, c.Call.Row, opStyle)
		case "fill":
			win.Fill(cell)
		case "clear":
			win.Clear()
		case "print":
			retCol, retRow = win.Print(seg)
			hasRet = true
		case "printtruncate":
			win.PrintTruncate(c.Call.Row, seg)
		case "println":
			win.Println(c.Call.Row, seg)
		case "wrap":
			retCol, retRow = win.Wrap(seg)
			hasRet = true
		}
	}()
	if panicMsg != "" {
		return panicMsg
	}
	vx.Render()
	t := x.s.Term
	t.Lock()
	defer t.Unlock()
	grid := t.Grid()
	var changed []placed
	for r := 0; r < t.Rows; r++ {
		for col := 0; col < t.Cols; col++ {
			cell := grid[r][col]
			if isSentinel(cell) {
				continue
			}
			if strings.Contains(cell.Poison, "across the right edge") {
				// a wide cluster in the last column of the *screen*: what a
				// terminal shows there is terminal-specific (same exclusion
				// as C01); nothing is asserted for this case
				harness.R.Label("run", "wide-cluster-at-the-screen-edge(not asserted)")
				return ""
			}
			if cell.W == 0 {
				// right half of a wide glyph: part of the glyph to its left
				if !clip.contains(col, r) {
					own := rect{oc, or, oc + ww, or + wh}
					if own.contains(col, r) || !(c.Call.K == "print" || c.Call.K == "wrap" || c.Call.K == "println" || c.Call.K == "printtruncate") {
						// cut by an ancestor's edge (the helper only knows its own
						// window) or placed by SetCell/Fill with a wide cell: the
						// cell itself is inside, only the glyph's right half is not
						harness.R.Label("run", "wide-cluster-cut-by-an-ancestor-or-by-SetCell(label only)")
						continue
					}
					return fmt.Sprintf("%s drew the right half of a wide cluster at col %d row %d, outside its own window (cols %d..%d rows %d..%d)", c.Call.K, col, r, oc, oc+ww-1, or, or+wh-1)
				}
				continue
			}
			if !clip.contains(col, r) {
				return fmt.Sprintf("screen cell col %d row %d changed (now %q); the window chain clips to cols [%d,%d) rows [%d,%d)", col, r, cell.G, clip.c0, clip.c1, clip.r0, clip.r1)
			}
			changed = append(changed, placed{r, col, cell.G, cell.W})
		}
	}
	switch c.Call.K {
	case "setcell", "setstyle":
		ac, ar := oc+c.Call.Col, or+c.Call.Row
		accepted := c.Call.Col >= 0 && c.Call.Row >= 0 && c.Call.Col < ww && c.Call.Row < wh && clip.contains(ac, ar)
		if accepted {
			if len(changed) != 1 || changed[0].col != ac || changed[0].row != ar {
				return fmt.Sprintf("%s(%d,%d) inside the window must change exactly the cell at origin+offset = col %d row %d; changed cells: %v", c.Call.K, c.Call.Col, c.Call.Row, ac, ar, changed)
			}
			if c.Call.K == "setcell" && changed[0].g != "x" {
				return fmt.Sprintf("SetCell(%d,%d) wrote %q", c.Call.Col, c.Call.Row, changed[0].g)
			}
			if c.Call.K == "setstyle" && changed[0].g != "S" {
				return fmt.Sprintf("SetStyle(%d,%d) changed the content to %q", c.Call.Col, c.Call.Row, changed[0].g)
			}
		} else if len(changed) != 0 {
			return fmt.Sprintf("%s(%d,%d) lies outside the window (size %dx%d) or its ancestors, yet cells changed: %v", c.Call.K, c.Call.Col, c.Call.Row, ww, wh, changed)
		}
	case "fill", "clear":
		// every cell of the clip rectangle is written
		n := 0
		if !clip.empty() {
			n = (clip.c1 - clip.c0) * (clip.r1 - clip.r0)
		}
		if len(changed) != n {
			return fmt.Sprintf("%s changed %d cells, the visible part of the window has %d", c.Call.K, len(changed), n)
		}
	case "print", "printtruncate", "println", "wrap":
		return textPredicates(c, changed, clip, oc, or, ww, wh, retCol, retRow, hasRet)
	}
	return ""
}

// clusters of the text as the helpers see them (TAB = 8 spaces, LF = line break)
func expand(text []string) (out []string) {
	for _, g := range text {
		if g == "\t" {
			for i := 0; i < 8; i++ {
				out = append(out, " ")
			}
			continue
		}
		out = append(out, g)
	}
	return
}

func width(g string) int {
	w, ok := widthtab.Width(g, widthtab.Wcwidth)
	if !ok {
		return 1
	}
	return w
}

func textPredicates(c Case, changed []placed, clip rect, oc, or, ww, wh, retCol, retRow int, hasRet bool) string {
	clusters := expand(c.Call.Text)
	// reading order: the glyphs drawn are, in row-major order, a subsequence-free
	// prefix-respecting image of the text: each drawn glyph is the next
	// not-yet-consumed cluster of the text (clusters may be dropped only when
	// they fall outside the visible part of the window)
	ti := 0
	var prev *placed
	fullyVisible := clip.c0 == oc && clip.r0 == or && clip.c1 == oc+ww && clip.r1 == or+wh && ww > 0 && wh > 0
	for i := range changed {
		p := changed[i]
		g := p.g
		// find it in the text from ti on
		found := -1
		lf := false
		for k := ti; k < len(clusters); k++ {
			if clusters[k] == "\n" {
				lf = true
				continue
			}
			if clusters[k] == g || (c.Call.K == "printtruncate" && g == "…") {
				found = k
				break
			}
			if fullyVisible && c.Call.K != "wrap" && width(clusters[k]) <= ww {
				break // nothing that fits the window may be skipped when it is wholly visible
			}
		}
		if found < 0 {
			return fmt.Sprintf("%s(%q): cell col %d row %d shows %q, which is not the next cluster of the text (clusters %q, %d consumed); drawn: %v", c.Call.K, strings.Join(c.Call.Text, ""), p.col, p.row, g, clusters, ti, changed)
		}
		if g != "…" || c.Call.K != "printtruncate" {
			if p.w != width(clusters[found]) {
				return fmt.Sprintf("%s: cluster %q occupies %d cell(s), its display width is %d", c.Call.K, g, p.w, width(clusters[found]))
			}
		}
		if prev != nil && fullyVisible {
			if p.row == prev.row {
				if p.col != prev.col+prev.w {
					return fmt.Sprintf("%s: %q at col %d does not follow %q (col %d, width %d) directly", c.Call.K, g, p.col, prev.g, prev.col, prev.w)
				}
			} else if !lf && c.Call.K == "print" {
				// a new row without a line break: the previous row must have been unable to hold g
				room := oc + ww - (prev.col + prev.w)
				if room >= p.w {
					return fmt.Sprintf("%s: %q starts a new row although %d column(s) were left on the previous one", c.Call.K, g, room)
				}
				if p.col != oc {
					return fmt.Sprintf("%s: a wrapped row starts at col %d, the window starts at col %d", c.Call.K, p.col, oc)
				}
			}
		}
		ti = found + 1
		prev = &changed[i]
	}
	// completeness: with the whole window visible and enough room, nothing is lost
	if fullyVisible && c.Call.K == "print" {
		total := 0
		lines := 1
		for _, cl := range clusters {
			if cl == "\n" {
				lines++
				total = 0
				continue
			}
			total += width(cl)
		}
		if lines == 1 && total <= ww && len(changed) != len(clusters) {
			return fmt.Sprintf("print(%q) fits the first row of the window (%d columns) but only %d of %d clusters were drawn", strings.Join(c.Call.Text, ""), ww, len(changed), len(clusters))
		}
	}
	if hasRet && fullyVisible && c.Call.K == "print" && prev != nil {
		// the returned position is where the next cluster would go
		wantCol, wantRow := prev.col-oc+prev.w, prev.row-or
		if wantCol >= ww {
			wantCol, wantRow = 0, wantRow+1
		}
		last := clusters[len(clusters)-1]
		if last != "\n" && ti == len(clusters) && (retCol != wantCol || retRow != wantRow) {
			return fmt.Sprintf("print(%q) returned position (%d,%d), the text ends at (%d,%d)", strings.Join(c.Call.Text, ""), retCol, retRow, wantCol, wantRow)
		}
	}
	return ""
}

// ---------------------------------------------------------------------------

var coords = []int{-2, -1, 0, 1, 2, 3, 4, 5}
var sizes = []int{-1, 0, 1, 2, 3, 6}
var texts = [][]string{
	{"a"}, {"a", "b"}, {"a", "b", "c", "d", "e"}, {"宽"}, {"a", "宽"}, {"宽", "宽", "宽"}, {"e\u0301", "b"}, {"a", "e\u0301"}, {"e\u0301"}, {"a", "\n", "b"}, {"\n", "a"},
	{"a", " ", "b"}, {"\t"}, {"a", "b", " ", "c", "d", " ", "e"}, {"a", "\n", "\n", "b"}, {"a", "宽", "b", "宽", "c", "d"}, {"a", "b", "c", "\n"}, {"b", "e\u0301", "e\u0301", "宽"},
}

func calls() []Call {
	var out []Call
	for _, c := range []int{-2, -1, 0, 1, 2, 3, 6} {
		for _, r := range []int{-2, -1, 0, 1, 2, 3, 6} {
			out = append(out, Call{K: "setcell", Col: c, Row: r}, Call{K: "setstyle", Col: c, Row: r})
		}
	}
	out = append(out, Call{K: "fill"}, Call{K: "clear"})
	for _, t := range texts {
		out = append(out, Call{K: "print", Text: t}, Call{K: "wrap", Text: t})
		single := true
		for _, g := range t {
			if g == "\n" {
				single = false // Println / PrintTruncate print a single line of text
			}
		}
		if !single {
			continue
		}
		for _, r := range []int{-1, 0, 1, 3} {
			out = append(out, Call{K: "println", Row: r, Text: t}, Call{K: "printtruncate", Row: r, Text: t})
		}
	}
	return out
}

func nontrivial(c Case) bool {
	oc, or := 0, 0
	pw, ph := c.SCols, c.SRows
	for _, w := range c.Chain {
		if w.Col < 0 || w.Row < 0 || w.W < 0 || w.H < 0 || w.Col+w.W > pw || w.Row+w.H > ph {
			return true
		}
		oc += w.Col
		or += w.Row
		pw, ph = w.W, w.H
	}
	return len(c.Call.Text) > 2
}

func TestDepth1Exhaustive(t *testing.T) {
	if harness.ReplayPath() != "" {
		t.Skip()
	}
	const sub = "depth1"
	x, err := newSession(4, 3)
	if err != nil {
		t.Fatal(err)
	}
	defer x.s.Close(5 * time.Second)
	cs := calls()
	idx := 0
	fails := 0
	for _, lit := range []bool{false, true} {
		for _, col := range coords {
			for _, row := range coords {
				for _, w := range sizes {
					for _, h := range sizes {
						idx++
						if !harness.Mine(idx) || fails > 3 {
							continue
						}
						for ci, call := range cs {
							c := Case{SCols: 4, SRows: 3, Chain: []Win{{col, row, w, h, lit}}, Call: call}
							harness.R.Eval(sub)
							if nontrivial(c) {
								harness.R.Nontrivial(sub, c)
							}
							if idx%600 == 1 && ci%40 == 0 {
								harness.R.Sample(sub, c)
							}
							if msg := x.run(c); msg != "" {
								fails++
								harness.Fail(t, sub, msg, c)
								x.s.Drain()
								break
							}
						}
						x.s.Drain()
					}
				}
			}
		}
	}
	if fails == 0 {
		harness.R.Exhaustive(sub)
	}
}

// TestDepth2Regions enumerates every two-level chain over a reduced set of
// offsets and sizes for the operations that write a whole region (Fill, Clear,
// and a Print of a text longer than any window): the clip rectangle is the
// intersection of both windows and the screen.
func TestDepth2Regions(t *testing.T) {
	if harness.ReplayPath() != "" {
		t.Skip()
	}
	const sub = "depth2-regions"
	x, err := newSession(4, 3)
	if err != nil {
		t.Fatal(err)
	}
	defer x.s.Close(5 * time.Second)
	offs := []int{-2, -1, 0, 1, 2}
	szs := []int{-1, 1, 3, 9}
	if harness.Thorough() {
		offs = []int{-3, -2, -1, 0, 1, 2, 3}
		szs = []int{-1, 0, 1, 2, 3, 4, 9}
	}
	region := []Call{{K: "fill"}, {K: "clear"}, {K: "wrap", Text: []string{"a", "b", "c", "d", "e", "a", "b", "c", "d", "e", "a", "b", "c", "d", "e"}}}
	idx, fails := 0, 0
	for _, c1 := range offs {
		for _, r1 := range offs {
			for _, w1 := range szs {
				for _, h1 := range szs {
					idx++
					if !harness.Mine(idx) || fails > 3 {
						continue
					}
					for _, c2 := range offs {
						for _, r2 := range offs {
							for _, w2 := range szs {
								for _, h2 := range szs {
									for ci, call := range region {
										c := Case{SCols: 4, SRows: 3, Chain: []Win{{c1, r1, w1, h1, false}, {c2, r2, w2, h2, false}}, Call: call}
										harness.R.Eval(sub)
										if nontrivial(c) {
											harness.R.Nontrivial(sub, c)
										}
										if c1+c2 <= 0 && r1+r2 <= 0 && (c1 > 0 || r1 > 0) && (w2 < 0 || w2 >= 9) && (h2 < 0 || h2 >= 9) {
											harness.R.Label(sub, "the child's own rectangle covers the screen, its parent does not")
										}
										if idx%97 == 1 && ci == 1 && c2 == -1 && w2 == -1 {
											harness.R.Sample(sub, c)
										}
										if msg := x.run(c); msg != "" {
											fails++
											harness.Fail(t, sub, msg, c)
											x.s.Drain()
											break
										}
									}
								}
							}
						}
						x.s.Drain()
					}
				}
			}
		}
	}
	if fails == 0 {
		harness.R.Exhaustive(sub)
	}
}

func TestChains(t *testing.T) {
	const sub = "chains"
	x, err := newSession(6, 4)
	if err != nil {
		t.Fatal(err)
	}
	defer x.s.Close(5 * time.Second)
	cs := calls()
	n := harness.PerShard(harness.Scale(60_000, 40_000_000))
	harness.Check(t, sub, n, func(rt *rapid.T) Case {
		c := Case{SCols: 6, SRows: 4}
		depth := rapid.IntRange(1, 4).Draw(rt, "depth")
		for i := 0; i < depth; i++ {
			w := Win{Col: rapid.IntRange(-2, 6).Draw(rt, "col"), Row: rapid.IntRange(-2, 5).Draw(rt, "row"),
				W: rapid.SampledFrom([]int{-1, 0, 1, 2, 3, 4, 6, 9}).Draw(rt, "w"), H: rapid.SampledFrom([]int{-1, 0, 1, 2, 3, 4, 7}).Draw(rt, "h"), Literal: rapid.IntRange(0, 3).Draw(rt, "lit") == 0}
			if rapid.IntRange(0, 5).Draw(rt, "huge") == 2 {
				// "oversized" up to the largest int: offset+size overflows
				harness.R.Label(sub, "window size near the largest int")
				if rapid.Bool().Draw(rt, "huge-w") {
					w.W = math.MaxInt - rapid.IntRange(0, 2).Draw(rt, "dw")
				} else {
					w.H = math.MaxInt - rapid.IntRange(0, 2).Draw(rt, "dh")
				}
				w.Literal = false
			}
			if i > 0 && rapid.IntRange(0, 2).Draw(rt, "cancel") == 1 {
				// a child that reaches back over its parent's origin: its
				// own rectangle can cover cells (even the whole screen) which
				// its ancestors clip away
				harness.R.Label(sub, "child offset cancels its parent's")
				prev := c.Chain[i-1]
				w.Col = -prev.Col + rapid.SampledFrom([]int{-1, 0, 0, 1}).Draw(rt, "dcol")
				w.Row = -prev.Row + rapid.SampledFrom([]int{-1, 0, 0, 1}).Draw(rt, "drow")
				w.W = rapid.SampledFrom([]int{9, -1, -1, 12}).Draw(rt, "bigw")
				w.H = rapid.SampledFrom([]int{7, -1, -1, 12}).Draw(rt, "bigh")
			}
			c.Chain = append(c.Chain, w)
		}
		// choose the kind of call first: the two region operations are 2 of
		// the ~250 calls and would otherwise hardly ever be drawn
		kind := rapid.SampledFrom([]string{"setcell", "fill", "clear", "setstyle", "print", "wrap", "clear", "println", "printtruncate", "fill"}).Draw(rt, "kind")
		var ofKind []Call
		for _, call := range cs {
			if call.K == kind {
				ofKind = append(ofKind, call)
			}
		}
		c.Call = rapid.SampledFrom(ofKind).Draw(rt, "call")
		if c.Call.K == "setcell" || c.Call.K == "setstyle" {
			c.Call.Col, c.Call.Row = rapid.IntRange(-2, 7).Draw(rt, "ccol"), rapid.IntRange(-2, 5).Draw(rt, "crow")
		}
		if nontrivial(c) {
			harness.R.Nontrivial(sub, c)
		}
		harness.R.Label(sub, "call:"+c.Call.K)
		harness.R.Sample(sub, c)
		return c
	}, func(c Case) string {
		msg := x.run(c)
		x.s.Drain()
		return msg
	})
}

func TestReplay(t *testing.T) {
	r := harness.Decode(func(c Case) string {
		x, err := newSession(c.SCols, c.SRows)
		if err != nil {
			return ""
		}
		defer x.s.Close(5 * time.Second)
		return x.run(c)
	})
	harness.ReplayAll(t, map[string]harness.Runner{"depth1": r, "chains": r, "depth2-regions": r})
}
