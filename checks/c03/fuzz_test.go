package c03

import (
	"bytes"
	"testing"

	"verif/internal/harness"
	"verif/internal/refterm"
	"verif/internal/vtref"
)

// FuzzInput: arbitrary bytes arrive on the terminal input of a live Vaxis
// (any capability set), followed by a marker key. The oracle is the one of
// the streams sub-check for an opaque token: the input loop survives (no
// panic, no wedge), the marker key arrives after whatever events the bytes
// produced, nothing follows it, Close returns. Thorough tier only.
func FuzzInput(f *testing.F) {
	for _, s := range opaqueTokens {
		f.Add([]byte(s), uint32(0), false)
		f.Add([]byte(s), uint32(1<<refterm.NumCaps-1), true)
	}
	for _, s := range []string{
		"\x1b[M !!", "\x1b[M", "\x1b[<0;1;1M", "\x1b[<;;M", "\x1b[1;1R", "\x1b[?1;2c", "\x1b[?62;4c", "\x1b[?2026;2$y", "\x1b[?2027;0$y", "\x1b[48;1;2;3;4t", "\x1b[8;;t", "\x1b[4;1t",
		"\x1b]4;1;rgb:00/00/00\x07", "\x1b]10;x\x07", "\x1b]52;c;!!!\x07", "\x1b]52;;\x1b\\", "\x1bP1+r\x1b\\", "\x1bP>|t\x1b\\", "\x1b_G\x1b\\", "\x1b[?997;1n", "\x1b[?0u", "\x1b[27;;~", "\x1b[200~\x1b[200~x\x1b[201~",
		"\x1b[900000000000000000000;1u", "\x1b[1;0A", "\x1b[;u", "\x1b[57344;99999u", "\x1b[97;1:9u", "\x1b[97::98;;99u", "\x1bO", "\x1b\x1b\x1b", "\x9b1A", "\xff\xfe",
	} {
		f.Add([]byte(s), uint32(0x15555), false)
	}
	forbidden := [][]byte{[]byte("98304"), []byte("104857")} // the digits of the marker and the sentinel
	f.Fuzz(func(t *testing.T, data []byte, mask uint32, noKitty bool) {
		if len(data) > 120 {
			data = data[:120]
		}
		for _, fb := range forbidden {
			if bytes.Contains(data, fb) {
				return
			}
		}
		raw := append([]byte{}, data...)
		st := vtref.NewStream()
		st.Feed(raw)
		if st.InSequence() {
			raw = append(raw, 0x18)
		}
		// the bytes may have opened a bracketed paste: close it, or the
		// marker key would (correctly) arrive as pasted
		raw = append(raw, "\x1b[201~"...)
		c := Case{Caps: refterm.FromMask(mask % (1 << refterm.NumCaps))}
		c.Opts.DisableKitty = noKitty
		c.Steps = []Step{{Toks: []Tok{{K: "opaque", Raw: raw, Rep: 1, Mark: 1}}}}
		if msg := run(c); msg != "" {
			harness.FuzzFail(t, "fuzz", msg, c)
		}
	})
}
