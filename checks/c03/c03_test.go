package c03

import (
	"context"
	"fmt"
	"runtime"
	"strings"
	"testing"
	"time"

	vaxis "git.sr.ht/~rockorager/vaxis"
	"pgregory.net/rapid"

	"verif/internal/gen"
	"verif/internal/harness"
	"verif/internal/keyspec"
	"verif/internal/refterm"
	"verif/internal/vtref"
	"verif/internal/vxdrive"
	"verif/internal/widthtab"
)

func TestMain(m *testing.M) { harness.Main(m, "C03") }

type Tok struct {
	K     string         `json:"k"` // text c0 alt ss3 csil csit mok stab kitty mouse focusin focusout paste opaque esc
	G     string         `json:"g,omitempty"`
	B     int            `json:"b,omitempty"`
	S     int            `json:"s,omitempty"` // index into keyspec.Specials
	N     int            `json:"n,omitempty"`
	M     int            `json:"m,omitempty"`
	Ky    *keyspec.Kitty `json:"ky,omitempty"`
	Ms    *keyspec.Mouse `json:"ms,omitempty"`
	Paste []Tok          `json:"paste,omitempty"`
	Raw   []byte         `json:"raw,omitempty"`
	Rep   int            `json:"rep,omitempty"`
	Mark  int            `json:"mark,omitempty"` // marker number following an opaque token
}

type Step struct {
	Toks  []Tok  `json:"toks,omitempty"`
	Chunk int    `json:"chunk,omitempty"` // 0 = one write; n = n-byte writes
	Query string `json:"query,omitempty"` // cpr color fg bg clip
	Reply string `json:"reply,omitempty"` // now late never sync (sync: answered before the write of the request returns)
	Index int    `json:"index,omitempty"`
}

type Case struct {
	Caps  refterm.Caps `json:"caps"`
	Opts  vxdrive.Opts `json:"opts"`
	Steps []Step       `json:"steps"`
}

type exp struct {
	kind  string // key mouse focusin focusout pastestart pasteend opaque
	want  keyspec.Want
	mouse keyspec.Mouse
	desc  string
}

const markerBase = 0xF0000
const sentinel = 0xFFFFD

func markerBytes(n int) []byte { return []byte(fmt.Sprintf("\x1b[%du", markerBase+n)) }

// expand turns a token into bytes, expected events, and whether a long gap
// must follow it.
func expand(t Tok, pasting bool) (b []byte, evs []exp, gap bool) {
	key := func(s string, w keyspec.Want) {
		if pasting {
			w.EventType = vaxis.EventPaste
		}
		b = append(b, s...)
		evs = append(evs, exp{kind: "key", want: w, desc: fmt.Sprintf("%s %q", t.K, s)})
	}
	switch t.K {
	case "text":
		s, w := keyspec.LegacyText(t.G)
		key(s, w)
	case "c0":
		s, w := keyspec.LegacyC0(byte(t.B))
		key(s, w)
	case "esc":
		s, w := keyspec.LegacyC0(0x1b)
		key(s, w)
		gap = true
	case "alt":
		s, w := keyspec.LegacyAlt(byte(t.B))
		key(s, w)
	case "ss3":
		s, w := keyspec.LegacySS3(keyspec.Specials[t.S])
		key(s, w)
	case "csil":
		s, w := keyspec.LegacyCSILetter(keyspec.Specials[t.S], t.M)
		key(s, w)
	case "csit":
		s, w := keyspec.LegacyCSITilde(keyspec.Specials[t.S], t.N, t.M)
		key(s, w)
	case "mok":
		s, w := keyspec.LegacyModifyOther(rune(t.B), t.M)
		key(s, w)
	case "stab":
		s, w := keyspec.ShiftTab()
		key(s, w)
	case "kitty":
		key(t.Ky.Encode(), t.Ky.Want())
	case "mouse":
		b = append(b, t.Ms.Encode()...)
		evs = append(evs, exp{kind: "mouse", mouse: *t.Ms, desc: t.Ms.Encode()})
	case "focusin":
		b = append(b, "\x1b[I"...)
		evs = append(evs, exp{kind: "focusin", desc: "CSI I"})
	case "focusout":
		b = append(b, "\x1b[O"...)
		evs = append(evs, exp{kind: "focusout", desc: "CSI O"})
	case "paste":
		b = append(b, "\x1b[200~"...)
		evs = append(evs, exp{kind: "pastestart", desc: "CSI 200~"})
		for _, p := range t.Paste {
			pb, pe, _ := expand(p, true)
			b = append(b, pb...)
			evs = append(evs, pe...)
		}
		b = append(b, "\x1b[201~"...)
		evs = append(evs, exp{kind: "pasteend", desc: "CSI 201~"})
	case "opaque":
		rep := t.Rep
		if rep < 1 {
			rep = 1
		}
		for i := 0; i < rep; i++ {
			b = append(b, t.Raw...)
		}
		evs = append(evs, exp{kind: "opaque", desc: fmt.Sprintf("%q x%d", t.Raw, rep)})
		b = append(b, markerBytes(t.Mark)...)
		evs = append(evs, exp{kind: "key", want: keyspec.Want{Keycode: rune(markerBase + t.Mark)}, desc: fmt.Sprintf("marker %d", t.Mark)})
	}
	return
}

func publicEvent(ev vaxis.Event) bool {
	switch ev.(type) {
	case vaxis.Key, vaxis.Mouse, vaxis.FocusIn, vaxis.FocusOut, vaxis.PasteStartEvent, vaxis.PasteEndEvent,
		vaxis.Resize, vaxis.Redraw, vaxis.ColorThemeUpdate, vaxis.QuitEvent, vaxis.SyncFunc:
		return true
	}
	return false
}

func matches(e exp, ev vaxis.Event) string {
	switch e.kind {
	case "key":
		k, ok := ev.(vaxis.Key)
		if !ok {
			return fmt.Sprintf("got %T %+v", ev, ev)
		}
		return e.want.Check(k)
	case "mouse":
		m, ok := ev.(vaxis.Mouse)
		if !ok {
			return fmt.Sprintf("got %T %+v", ev, ev)
		}
		return e.mouse.Check(m)
	case "focusin":
		if _, ok := ev.(vaxis.FocusIn); !ok {
			return fmt.Sprintf("got %T %+v", ev, ev)
		}
	case "focusout":
		if _, ok := ev.(vaxis.FocusOut); !ok {
			return fmt.Sprintf("got %T %+v", ev, ev)
		}
	case "pastestart":
		if _, ok := ev.(vaxis.PasteStartEvent); !ok {
			return fmt.Sprintf("got %T %+v", ev, ev)
		}
	case "pasteend":
		if _, ok := ev.(vaxis.PasteEndEvent); !ok {
			return fmt.Sprintf("got %T %+v", ev, ev)
		}
	}
	return ""
}

func stacks() string {
	buf := make([]byte, 1<<20)
	return string(buf[:runtime.Stack(buf, true)])
}

func wedged(dump string) (bool, string) {
	for _, g := range strings.Split(dump, "\n\n") {
		if strings.Contains(g, "(*Vaxis).handleSequence") && strings.Contains(g, "(*Vaxis).openTty.func1") &&
			(strings.Contains(g, "[chan send") || strings.Contains(g, "[select")) {
			for _, l := range strings.Split(g, "\n") {
				if strings.Contains(l, "/repo/vaxis.go:") {
					return true, "input goroutine parked in handleSequence at " + strings.TrimSpace(l)
				}
			}
			return true, "input goroutine parked in handleSequence"
		}
	}
	return false, ""
}

// collect reads public events until the sentinel key; returns them.
func collect(s *vxdrive.Session, d time.Duration) ([]vaxis.Event, string) {
	s.TTY.InjectString(fmt.Sprintf("\x1b[%du", sentinel))
	var out []vaxis.Event
	deadline := time.NewTimer(d)
	defer deadline.Stop()
	for {
		select {
		case ev := <-s.Vx.Events():
			if k, ok := ev.(vaxis.Key); ok && k.Keycode == sentinel {
				return out, ""
			}
			if publicEvent(ev) {
				out = append(out, ev)
			}
		case <-deadline.C:
			d1 := stacks()
			time.Sleep(100 * time.Millisecond)
			if w, why := wedged(d1); w {
				if w2, _ := wedged(stacks()); w2 {
					return out, "the input loop stopped consuming input: " + why
				}
			}
			return out, "-"
		}
	}
}

func runOnce(c Case) string {
	harness.JournalBegin("streams", c)
	defer harness.JournalEnd()
	s, err := vxdrive.Start(20, 5, c.Caps, c.Opts)
	if err != nil {
		return "vaxis.New failed: " + err.Error()
	}
	defer s.Close(5 * time.Second)
	if _, msg := collect(s, 10*time.Second); msg != "" {
		if msg == "-" {
			return ""
		}
		return "after start-up: " + msg
	}
	for si, st := range c.Steps {
		if st.Query != "" {
			if msg := runQuery(s, c, st); msg != "" {
				if msg == "-" {
					return ""
				}
				return fmt.Sprintf("step %d: %s", si, msg)
			}
			continue
		}
		var want []exp
		var pendingBytes []byte
		flush := func() {
			if len(pendingBytes) == 0 {
				return
			}
			if st.Chunk > 0 {
				for i := 0; i < len(pendingBytes); i += st.Chunk {
					j := i + st.Chunk
					if j > len(pendingBytes) {
						j = len(pendingBytes)
					}
					s.TTY.Inject(pendingBytes[i:j])
				}
			} else {
				s.TTY.Inject(pendingBytes)
			}
			pendingBytes = nil
		}
		var got []vaxis.Event
		for _, t := range st.Toks {
			b, evs, gap := expand(t, false)
			want = append(want, evs...)
			if !gap {
				pendingBytes = append(pendingBytes, b...)
				continue
			}
			// a lone ESC: everything before it is processed first (collect
			// to the sentinel), then the ESC arrives on its own and its
			// event is awaited - no fixed sleep, the machine may be busy
			flush()
			before, msg := collect(s, 10*time.Second)
			if msg == "-" {
				return ""
			}
			if msg != "" {
				return fmt.Sprintf("step %d: %s", si, msg)
			}
			got = append(got, before...)
			s.TTY.Inject(b)
			deadline := time.After(10 * time.Second)
		await:
			for {
				select {
				case ev := <-s.Vx.Events():
					if publicEvent(ev) {
						got = append(got, ev)
						break await
					}
				case <-deadline:
					break await // reported below as "produced no event"
				}
			}
		}
		flush()
		rest, msg := collect(s, 10*time.Second)
		if msg == "-" {
			return ""
		}
		if msg != "" {
			return fmt.Sprintf("step %d: %s", si, msg)
		}
		got = append(got, rest...)
		// align
		gi := 0
		for wi, e := range want {
			if e.kind == "opaque" {
				// extra events derived from this token are tolerated up to the marker
				marker := want[wi+1]
				for gi < len(got) && matches(marker, got[gi]) != "" {
					gi++
				}
				continue
			}
			if gi >= len(got) {
				return fmt.Sprintf("step %d: user input %s produced no event (event %d of %d expected; %d received)", si, e.desc, wi, len(want), len(got))
			}
			if m := matches(e, got[gi]); m != "" {
				return fmt.Sprintf("step %d: user input %s: %s (event %d)", si, e.desc, m, gi)
			}
			gi++
		}
		if gi < len(got) {
			return fmt.Sprintf("step %d: %d extra event(s) after the last user input, first %T %+v", si, len(got)-gi, got[gi], got[gi])
		}
	}
	return ""
}

var run = harness.Confirm(runOnce, 2)

func queryPatience(st Step) time.Duration {
	if st.Reply != "now" && (st.Query == "color" || st.Query == "fg" || st.Query == "bg") {
		return 150 * time.Millisecond // these have no timeout of their own; the reply is released then
	}
	return 3 * time.Second
}

func runQuery(s *vxdrive.Session, c Case, st Step) string {
	vx := s.Vx
	term := s.Term
	var held [][]byte
	kind := map[string]string{"cpr": "cpr", "color": "osc4", "fg": "osc10", "bg": "osc11", "clip": "osc52"}[st.Query]
	if st.Reply == "sync" {
		s.TTY.SetSyncReplies(true)
		defer s.TTY.SetSyncReplies(false)
	}
	if st.Reply != "now" && st.Reply != "sync" {
		term.Lock()
		term.Hold = func(k string, reply []byte) bool {
			if k == kind {
				held = append(held, append([]byte{}, reply...))
				return true
			}
			return false
		}
		term.Unlock()
		defer func() { term.Lock(); term.Hold = nil; term.Unlock() }()
	}
	type result struct {
		s string
	}
	done := make(chan string, 1)
	go func() {
		switch st.Query {
		case "cpr":
			r, col := vx.CursorPosition()
			done <- fmt.Sprintf("%d,%d", r, col)
		case "color":
			done <- fmt.Sprintf("%x", uint32(vx.QueryColor(vaxis.IndexColor(uint8(st.Index)))))
		case "fg":
			done <- fmt.Sprintf("%x", uint32(vx.QueryForeground()))
		case "bg":
			done <- fmt.Sprintf("%x", uint32(vx.QueryBackground()))
		case "clip":
			ctx, cancel := context.WithTimeout(context.Background(), 40*time.Millisecond)
			defer cancel()
			str, err := vx.ClipboardPop(ctx)
			done <- fmt.Sprintf("%q,%v", str, err != nil)
		}
	}()
	var got string
	select {
	case got = <-done:
	case <-time.After(queryPatience(st)):
		if st.Reply == "now" || st.Reply == "sync" || st.Query == "cpr" || st.Query == "clip" {
			if w, why := wedged(stacks()); w {
				return "query " + st.Query + " never returned: " + why
			}
			return "-"
		}
		// colour queries have no timeout of their own: release the reply
		for _, h := range held {
			s.TTY.Inject(h)
		}
		held = nil
		select {
		case got = <-done:
		case <-time.After(5 * time.Second):
			if w, why := wedged(stacks()); w {
				return "query " + st.Query + " never returned after the reply arrived: " + why
			}
			return "-"
		}
		return ""
	}
	rgb := func(r, g, b uint8) string { return fmt.Sprintf("%x", uint32(vaxis.RGBColor(r, g, b))) }
	want := ""
	answered := st.Reply == "now" || st.Reply == "sync"
	switch st.Query {
	case "cpr":
		term.Lock()
		want = fmt.Sprintf("%d,%d", term.C.Row, term.C.Col)
		term.Unlock()
		if !answered {
			want = "-1,-1"
		}
	case "color":
		r, g, b := refterm.Palette(st.Index)
		want = rgb(r, g, b)
		if !c.Caps.OSC4 {
			want = "0"
		}
	case "fg":
		want = rgb(0xd0, 0xd0, 0xd0)
		if !c.Caps.OSC10 {
			want = "0"
		}
	case "bg":
		want = rgb(0x10, 0x20, 0x30)
		if !c.Caps.OSC11 {
			want = "0"
		}
	case "clip":
		want = fmt.Sprintf("%q,%v", c.Caps.Clipboard, false)
		if !c.Caps.OSC52 || !answered {
			want = fmt.Sprintf("%q,%v", "", true)
		}
	}
	if got != want {
		return fmt.Sprintf("query %s (reply %s) returned %s, the terminal reported %s", st.Query, st.Reply, got, want)
	}
	if st.Reply == "late" {
		// the reply arrives after the caller gave up: it is unsolicited
		// now; whatever it decodes into is tolerated up to the sentinel
		for _, h := range held {
			s.TTY.Inject(h)
		}
		if _, msg := collect(s, 10*time.Second); msg != "" {
			return "after a late " + st.Query + " reply: " + msg
		}
	}
	return ""
}

// ---------------------------------------------------------------------------
// generators

var opaqueTokens = []string{
	"\x1b[?62;4c", "\x1b[?c", "\x1b[?1;2;4;6;22c", "\x1b[c",
	"\x1b[?2026;1$y", "\x1b[?2026;2$y", "\x1b[?2026;0$y", "\x1b[?2026;4$y", "\x1b[?2026$y", "\x1b[?$y", "\x1b[$y", "\x1b[?2027;1$y", "\x1b[?2031;2$y", "\x1b[?9999;1$y",
	"\x1b[?1u", "\x1b[?u", "\x1b[?31u",
	"\x1bP1+r524742=382F382F38\x1b\\", "\x1bP0+r\x1b\\", "\x1bP1+r\x1b\\", "\x1bP+r\x1b\\", "\x1bP1+r536D756C78=1\x1b\\", "\x1bP1+rZZ=1=2\x1b\\", "\x1bP+\x1b\\", "\x1bPr\x1b\\",
	"\x1bP1$r2 q\x1b\\", "\x1bP1$r q\x1b\\", "\x1bP1$r9 q\x1b\\", "\x1bP$r\x1b\\", "\x1bP1$r\x1b\\",
	"\x1bP>|foo 1.0\x1b\\", "\x1bP>|\x1b\\", "\x1bP>\x1b\\", "\x1bP|\x1b\\", "\x1bP!|7E565445\x1b\\", "\x1bP!|00\x1b\\", "\x1bP!\x1b\\",
	"\x1b_Gi=1;OK\x1b\\", "\x1b_G\x1b\\", "\x1b_\x1b\\", "\x1b_x\x1b\\",
	"\x1b]4;1;rgb:ffff/0000/0000\x1b\\", "\x1b]10;rgb:1/2/3\x07", "\x1b]11;rgb:aaaa/bbbb/cccc\x07", "\x1b]4\x07", "\x1b]11\x07", "\x1b]10;\x07", "\x1b]4;1;junk\x1b\\",
	"\x1b]52;c;aGk=\x1b\\", "\x1b]52;c;!!!\x1b\\", "\x1b]52;c\x1b\\", "\x1b]52\x07", "\x1b]52;c;aGk=;x\x07",
	"\x1b]176;app\x1b\\", "\x1b]176\x07", "\x1b]176;a;b\x07",
	"\x1b[4;600;800t", "\x1b[8;24;80t", "\x1b[8;24t", "\x1b[48;24;80;600;800t", "\x1b[48;24;80t", "\x1b[t", "\x1b[9;1;1t", "\x1b[8;0;0t",
	"\x1b[5;7R", "\x1b[R", "\x1b[5R", "\x1b[5;7;9R",
	"\x1b[?997;1n", "\x1b[?997;2n", "\x1b[?997n", "\x1b[?1;2;3n", "\x1b[?n", "\x1b[0n",
	"\x1b[?2;0;256S", "\x1b[?2;3;0S", "\x1b[?2S", "\x1b[?S", "\x1b[?1;0;16S",
	"\x1b[M !!", "\x1b[M", "\x1b[m", "\x1b[<0;1M", "\x1b[<M", "\x1b[<0;0;0;0M", "\x1b[0;1;1M", "\x1b[>0;1;1M", "\x1b[<;;m", "\x1b[?<0;1;1M",
	"\x1b[1;2z", "\x1b[~", "\x1b[;~", "\x1b[99999999999999999999~", "\x1b[1;2\x18", "\x1b]0;title\x18", "\x1b[200\x18", "\xff\xfe", "\x1b[?I", "\x1b[u", "\x1b[;u", "\x1b[0;0;0u", "\x1b[::u", "\x1b[1:2:3:4;5:6:7;8:9u",
	"\x1b[27;5~", "\x1b[27~", "\x1b[27;;~", "\x1b[Z", "\x1b[1;1Z",
	"\x1bO", "\x1b(B", "\x1b#8",
}

var pasteGraphemes = append(widthtab.ByClass("narrow-ascii", "narrow", "wide", "emoji", "space"), "\x7f")

func genKeyTok(rt *rapid.T, inPaste bool) Tok {
	max := 10
	if inPaste {
		max = 2
	}
	switch rapid.IntRange(0, max).Draw(rt, "keykind") {
	case 0, 1:
		gs := widthtab.ByClass("narrow-ascii", "narrow", "wide", "emoji", "zwj", "vs16", "modifier", "flag", "combining", "space")
		gs = append(gs, "\x7f", "A", "Ф")
		return Tok{K: "text", G: rapid.SampledFrom(gs).Draw(rt, "g")}
	case 2:
		b := rapid.IntRange(0, 0x1f).Draw(rt, "c0")
		if b == 0x1b {
			b = 0x0d
		}
		return Tok{K: "c0", B: b}
	case 3:
		for {
			b := rapid.IntRange(0x30, 0x7f).Draw(rt, "altb")
			if keyspec.AltPrefixable(byte(b)) {
				return Tok{K: "alt", B: b}
			}
		}
	case 4:
		for {
			i := rapid.IntRange(0, len(keyspec.Specials)-1).Draw(rt, "ss3")
			if keyspec.Specials[i].SS3 != 0 {
				return Tok{K: "ss3", S: i}
			}
		}
	case 5:
		for {
			i := rapid.IntRange(0, len(keyspec.Specials)-1).Draw(rt, "csil")
			// CSI R is also the cursor position report; it is exercised
			// as an opaque token, not as a key
			if keyspec.Specials[i].Letter != 0 && keyspec.Specials[i].Letter != 'R' {
				return Tok{K: "csil", S: i, M: rapid.IntRange(0, 255).Draw(rt, "mods")}
			}
		}
	case 6:
		for {
			i := rapid.IntRange(0, len(keyspec.Specials)-1).Draw(rt, "csit")
			if len(keyspec.Specials[i].Tilde) > 0 {
				n := rapid.SampledFrom(keyspec.Specials[i].Tilde).Draw(rt, "tilde")
				return Tok{K: "csit", S: i, N: n, M: rapid.IntRange(0, 255).Draw(rt, "mods")}
			}
		}
	case 7:
		return Tok{K: "mok", B: rapid.SampledFrom([]int{13, 9, 32, 'a', '1', 127}).Draw(rt, "mok"), M: rapid.IntRange(1, 15).Draw(rt, "mods")}
	case 8:
		return Tok{K: "stab"}
	default:
		k := keyspec.Kitty{Code: rapid.SampledFrom([]int{'a', 'z', '1', ';', 32, 13, 9, 27, 127, 0x444, 0x5bbd, 57358, 57376, 57399, 57414, 57441, 57454}).Draw(rt, "kcode"), Mods: -1}
		if rapid.Bool().Draw(rt, "kshift") {
			k.Shifted = rapid.SampledFrom([]int{'A', ':', '!'}).Draw(rt, "kshifted")
		}
		if rapid.Bool().Draw(rt, "kbase") {
			k.Base = rapid.SampledFrom([]int{'q', 'a'}).Draw(rt, "kbasev")
		}
		if rapid.Bool().Draw(rt, "kmods") {
			k.Mods = rapid.IntRange(0, 255).Draw(rt, "kmodv")
		}
		if rapid.IntRange(0, 2).Draw(rt, "kev") == 0 {
			k.Event = rapid.IntRange(1, 3).Draw(rt, "kevv")
		}
		if rapid.IntRange(0, 2).Draw(rt, "ktext") == 0 {
			k.Text = rapid.SliceOfN(rapid.SampledFrom([]int{'a', 'A', 0xe9, 0x5bbd, 0x1f600}), 1, 3).Draw(rt, "ktextv")
		}
		return Tok{K: "kitty", Ky: &k}
	}
}

func genTok(rt *rapid.T, mark *int) Tok {
	switch rapid.IntRange(0, 13).Draw(rt, "tokkind") {
	case 0, 1, 2, 3, 4:
		return genKeyTok(rt, false)
	case 5, 6:
		m := keyspec.Mouse{Button: rapid.SampledFrom([]int{0, 1, 2, 3, 64, 65, 66, 67, 128, 129, 130, 131}).Draw(rt, "btn"),
			Shift: rapid.Bool().Draw(rt, "ms"), Alt: rapid.Bool().Draw(rt, "ma"), Ctrl: rapid.Bool().Draw(rt, "mc"),
			Motion: rapid.Bool().Draw(rt, "mm"), Release: rapid.Bool().Draw(rt, "mr"),
			Col: rapid.SampledFrom([]int{0, 1, 79, 222, 9999}).Draw(rt, "mx"), Row: rapid.SampledFrom([]int{0, 1, 23, 9999}).Draw(rt, "my")}
		return Tok{K: "mouse", Ms: &m}
	case 7:
		return Tok{K: rapid.SampledFrom([]string{"focusin", "focusout"}).Draw(rt, "focus")}
	case 8:
		n := rapid.IntRange(0, 6).Draw(rt, "npaste")
		t := Tok{K: "paste"}
		for i := 0; i < n; i++ {
			switch v := rapid.IntRange(0, 5).Draw(rt, "pc0"); {
			case v == 0:
				t.Paste = append(t.Paste, Tok{K: "c0", B: rapid.SampledFrom([]int{0x0a, 0x0d, 0x09, 0x01}).Draw(rt, "pc0v")})
			case v == 1:
				// pasted bytes that happen to be a key report are keys of the paste
				t.Paste = append(t.Paste, genKeyTok(rt, false))
			default:
				t.Paste = append(t.Paste, Tok{K: "text", G: rapid.SampledFrom(pasteGraphemes).Draw(rt, "pg")})
			}
		}
		return t
	case 9:
		if rapid.IntRange(0, 3).Draw(rt, "esc?") == 0 {
			return Tok{K: "esc"}
		}
		return genKeyTok(rt, false)
	default:
		raw := []byte(rapid.SampledFrom(opaqueTokens).Draw(rt, "opaque"))
		st := vtref.NewStream()
		st.Feed(raw)
		if st.InSequence() {
			raw = append(raw, 0x18)
		}
		*mark++
		return Tok{K: "opaque", Raw: raw, Rep: rapid.IntRange(1, 3).Draw(rt, "rep"), Mark: *mark}
	}
}

func genCase(rt *rapid.T) Case {
	c := Case{Caps: gen.Caps(rt)}
	c.Caps.OSC52 = rapid.Bool().Draw(rt, "osc52")
	c.Caps.ColorDigits = rapid.SampledFrom([]int{0, 2, 4}).Draw(rt, "colordigits")
	c.Caps.Clipboard = rapid.SampledFrom([]string{"", "hello", "x y\n"}).Draw(rt, "clip")
	c.Opts = vxdrive.Opts{DisableKitty: rapid.Bool().Draw(rt, "nokitty"), DisableMouse: rapid.Bool().Draw(rt, "nomouse")}
	mark := 0
	ns := rapid.IntRange(1, 4).Draw(rt, "nsteps")
	for i := 0; i < ns; i++ {
		if rapid.IntRange(0, 4).Draw(rt, "query?") == 0 {
			q := rapid.SampledFrom([]string{"cpr", "cpr", "color", "fg", "bg", "clip"}).Draw(rt, "query")
			r := rapid.SampledFrom([]string{"now", "sync", "now", "late", "never"}).Draw(rt, "reply")
			if q != "cpr" && r == "sync" {
				// only the cursor-position report is handed over through a
				// buffered channel; the other replies give the caller a
				// real-time window (10 ms) to show up, which a console that
				// holds the write back would turn into a timing assertion
				r = "now"
			}
			if (q == "color" || q == "fg" || q == "bg") && r == "never" {
				r = "late"
			}
			c.Steps = append(c.Steps, Step{Query: q, Reply: r, Index: rapid.IntRange(0, 255).Draw(rt, "idx")})
			continue
		}
		st := Step{Chunk: rapid.SampledFrom([]int{0, 0, 1, 3, 7}).Draw(rt, "chunk")}
		nt := rapid.IntRange(1, 14).Draw(rt, "ntoks")
		for j := 0; j < nt; j++ {
			st.Toks = append(st.Toks, genTok(rt, &mark))
		}
		c.Steps = append(c.Steps, st)
	}
	return c
}

func label(sub string, c Case) {
	seenOpaque, nontrivial := false, false
	for _, st := range c.Steps {
		if st.Query != "" {
			harness.R.Label(sub, "query:"+st.Query+"/"+st.Reply)
			seenOpaque = true
			continue
		}
		for _, t := range st.Toks {
			harness.R.Label(sub, "tok:"+t.K)
			if t.K == "opaque" {
				seenOpaque = true
			} else if seenOpaque {
				nontrivial = true
			}
		}
	}
	if nontrivial {
		harness.R.Nontrivial(sub, c)
	}
	harness.R.Sample(sub, c)
}

func TestStreams(t *testing.T) {
	const sub = "streams"
	n := harness.PerShard(harness.Scale(12_000, 1_000_000))
	harness.Check(t, sub, n, func(rt *rapid.T) Case {
		c := genCase(rt)
		label(sub, c)
		return c
	}, run)
}

// every opaque token, repeated, between two user keys (bounded-exhaustive
// over the reply/malformation table x capability extremes)
func TestEveryOpaqueToken(t *testing.T) {
	if harness.ReplayPath() != "" {
		t.Skip()
	}
	const sub = "opaque-table"
	idx := 0
	fails := 0
	for _, caps := range []refterm.Caps{{}, refterm.Full()} {
		for _, o := range opaqueTokens {
			for rep := 1; rep <= 3; rep++ {
				idx++
				if !harness.Mine(idx) || fails > 3 {
					continue
				}
				raw := []byte(o)
				st := vtref.NewStream()
				st.Feed(raw)
				if st.InSequence() {
					raw = append(raw, 0x18)
				}
				c := Case{Caps: caps, Steps: []Step{{Toks: []Tok{{K: "text", G: "a"}, {K: "opaque", Raw: raw, Rep: rep, Mark: 1}, {K: "text", G: "b"},
					{K: "mouse", Ms: &keyspec.Mouse{Button: 0, Col: 3, Row: 4}}}}, {Query: "cpr", Reply: "now"}, {Toks: []Tok{{K: "text", G: "c"}}}}}
				harness.R.Eval(sub)
				harness.R.Nontrivial(sub, c)
				if idx%40 == 1 {
					harness.R.Sample(sub, c)
				}
				if msg := run(c); msg != "" {
					fails++
					harness.Fail(t, sub, msg, c)
				}
			}
		}
	}
	if fails == 0 {
		harness.R.Exhaustive(sub)
	}
}

func TestReplay(t *testing.T) {
	r := harness.Decode(run)
	harness.ReplayAll(t, map[string]harness.Runner{"streams": r, "opaque-table": r, "fuzz": r})
}
