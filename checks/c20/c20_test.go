package c20

import (
	"bytes"
	"encoding/base64"
	"fmt"
	"image"
	"image/color"
	"image/png"
	"math"
	"regexp"
	"strconv"
	"strings"
	"sync"
	"testing"
	"time"

	vaxis "git.sr.ht/~rockorager/vaxis"
	"pgregory.net/rapid"

	"verif/internal/harness"
	"verif/internal/refterm"
	"verif/internal/vxdrive"
)

func TestMain(m *testing.M) { harness.Main(m, "C20") }

const (
	scrCols = 24
	scrRows = 12
)

func guard(f func()) (p string) {
	defer func() {
		if r := recover(); r != nil {
			p = fmt.Sprint(r)
		}
	}()
	f()
	return ""
}

// ---------------------------------------------------------------------------
// sessions: one real Vaxis per cell pixel geometry

type geom struct{ w, h int }

var (
	sessMu sync.Mutex
	sess   = map[geom]*vxdrive.Session{}
)

func session(g geom) *vxdrive.Session {
	sessMu.Lock()
	defer sessMu.Unlock()
	if s, ok := sess[g]; ok {
		return s
	}
	caps := refterm.Caps{RGB: true, Unicode2027: true, KittyGfx: true, SixelDA1: true}
	if g.w > 0 {
		caps.InBand2048 = true
		caps.CellW, caps.CellH = g.w, g.h
	}
	s, err := vxdrive.Start(scrCols, scrRows, caps, vxdrive.Opts{DisableMouse: true})
	if err != nil {
		sess[g] = nil
		return nil
	}
	s.TTY.Capture = true
	s.Sync(10 * time.Second)
	s.Drain()
	sess[g] = s
	return s
}

// awaitRedraw waits for the Redraw event the asynchronous encoders post.
func awaitRedraw(s *vxdrive.Session) bool {
	_, ok := s.WaitFor(func(ev vaxis.Event) bool { _, is := ev.(vaxis.Redraw); return is }, 20*time.Second)
	return ok
}

// ---------------------------------------------------------------------------
// images

type Px [4]uint8 // straight (non-premultiplied) r,g,b,a

type Img struct {
	W     int    `json:"w"`
	H     int    `json:"h"`
	Pix   []Px   `json:"pix,omitempty"`   // row-major; empty = uniform opaque colour
	Model string `json:"model,omitempty"` // nrgba (default) or rgba (premultiplied storage)
	// origin of the image handed to the library: its bounds are
	// (OX,OY)-(OX+W,OY+H), as for a SubImage of a larger picture. The oracle
	// always reads the origin-0 copy made by build.
	OX int `json:"ox,omitempty"`
	OY int `json:"oy,omitempty"`
}

// lib is the image the library is given: the pixels of build, with bounds
// that start at (OX,OY), cut out of a larger picture whose other pixels are an
// opaque colour no generated image contains.
func (im *Img) lib() image.Image {
	if im.OX == 0 && im.OY == 0 {
		return im.build()
	}
	outer := image.Rect(im.OX-2, im.OY-2, im.OX+im.W+2, im.OY+im.H+2)
	inner := image.Rect(im.OX, im.OY, im.OX+im.W, im.OY+im.H)
	alien := color.NRGBA{255, 0, 255, 255}
	if im.Model == "rgba" {
		out := image.NewRGBA(outer)
		for y := outer.Min.Y; y < outer.Max.Y; y++ {
			for x := outer.Min.X; x < outer.Max.X; x++ {
				out.Set(x, y, alien)
			}
		}
		for y := 0; y < im.H; y++ {
			for x := 0; x < im.W; x++ {
				p := im.at(x, y)
				out.Set(im.OX+x, im.OY+y, color.NRGBA{p[0], p[1], p[2], p[3]})
			}
		}
		return out.SubImage(inner)
	}
	out := image.NewNRGBA(outer)
	for y := outer.Min.Y; y < outer.Max.Y; y++ {
		for x := outer.Min.X; x < outer.Max.X; x++ {
			out.SetNRGBA(x, y, alien)
		}
	}
	for y := 0; y < im.H; y++ {
		for x := 0; x < im.W; x++ {
			p := im.at(x, y)
			out.SetNRGBA(im.OX+x, im.OY+y, color.NRGBA{p[0], p[1], p[2], p[3]})
		}
	}
	return out.SubImage(inner)
}

func (im *Img) at(x, y int) Px {
	if len(im.Pix) == 0 {
		return Px{200, 100, 50, 255}
	}
	return im.Pix[y*im.W+x]
}

func (im *Img) build() image.Image {
	if im.Model == "rgba" {
		out := image.NewRGBA(image.Rect(0, 0, im.W, im.H))
		for y := 0; y < im.H; y++ {
			for x := 0; x < im.W; x++ {
				p := im.at(x, y)
				out.Set(x, y, color.NRGBA{p[0], p[1], p[2], p[3]})
			}
		}
		return out
	}
	out := image.NewNRGBA(image.Rect(0, 0, im.W, im.H))
	for y := 0; y < im.H; y++ {
		for x := 0; x < im.W; x++ {
			p := im.at(x, y)
			out.SetNRGBA(x, y, color.NRGBA{p[0], p[1], p[2], p[3]})
		}
	}
	return out
}

func ceilDiv(a, b int) int { return (a + b - 1) / b }

// ---------------------------------------------------------------------------
// fit: CellSize after Resize

type FitCase struct {
	Proto string `json:"proto"` // half full kitty sixel
	PW    int    `json:"pw"`
	PH    int    `json:"ph"`
	CW    int    `json:"cw"` // cell pixel geometry
	CH    int    `json:"ch"`
	BW    int    `json:"bw"`
	BH    int    `json:"bh"`
	OX    int    `json:"ox,omitempty"` // origin of the image's bounds
	OY    int    `json:"oy,omitempty"`
}

func newImage(s *vxdrive.Session, proto string, img image.Image) vaxis.Image {
	switch proto {
	case "half":
		return s.Vx.NewHalfBlockImage(img)
	case "full":
		return s.Vx.NewFullBlockImage(img)
	case "kitty":
		return s.Vx.NewKittyGraphic(img)
	case "sixel":
		return s.Vx.NewSixel(img)
	}
	panic("proto " + proto)
}

func resizeSync(s *vxdrive.Session, proto string, im vaxis.Image, w, h int, degenerate bool) string {
	s.Drain()
	if p := guard(func() { im.Resize(w, h) }); p != "" {
		return "Resize panicked: " + p
	}
	if proto == "kitty" || proto == "sixel" {
		if degenerate {
			// an image without pixels cannot be encoded; no Redraw follows
			s.WaitFor(func(ev vaxis.Event) bool { _, is := ev.(vaxis.Redraw); return is }, 150*time.Millisecond)
			return ""
		}
		if !awaitRedraw(s) {
			return "Resize did not post the Redraw event its documentation promises on completion (the image was not re-encoded for this box and cell geometry)"
		}
	}
	return ""
}

// degenerateFit: scaling leaves no pixel in one dimension.
func degenerateFit(pw, ph, cw, ch, bw, bh int) bool {
	cols0, rows0 := ceilDiv(pw, cw), ceilDiv(ph, ch)
	if cols0 <= bw && rows0 <= bh {
		return false
	}
	sf := math.Min(float64(bw)/float64(cols0), float64(bh)/float64(rows0))
	return sf*float64(pw) < 1.000001 || sf*float64(ph) < 1.000001
}

func checkFit(c FitCase, w, h int) string {
	cols0, rows0 := ceilDiv(c.PW, c.CW), ceilDiv(c.PH, c.CH)
	what := fmt.Sprintf("%s image of %dx%d px (%dx%d cells of %dx%d px) resized for a %dx%d box", c.Proto, c.PW, c.PH, cols0, rows0, c.CW, c.CH, c.BW, c.BH)
	if w > c.BW || h > c.BH {
		return fmt.Sprintf("%s has cell size %dx%d: larger than the box", what, w, h)
	}
	if w > cols0 || h > rows0 {
		return fmt.Sprintf("%s has cell size %dx%d: upscaled", what, w, h)
	}
	if w < 0 || h < 0 {
		return fmt.Sprintf("%s has cell size %dx%d", what, w, h)
	}
	s := math.Min(1, math.Min(float64(c.BW)/float64(cols0), float64(c.BH)/float64(rows0)))
	iw, ih := s*float64(cols0), s*float64(rows0)
	if math.Abs(float64(w)-iw) > 1+1e-9 || math.Abs(float64(h)-ih) > 1+1e-9 {
		return fmt.Sprintf("%s has cell size %dx%d: keeping the aspect ratio gives %.2fx%.2f", what, w, h, iw, ih)
	}
	return ""
}

func runFit(c FitCase) string {
	g := geom{c.CW, c.CH}
	if c.Proto == "half" || c.Proto == "full" {
		g = geom{}
	}
	s := session(g)
	if s == nil {
		return "harness: no session"
	}
	sessMu.Lock()
	defer sessMu.Unlock()
	im := &Img{W: c.PW, H: c.PH, OX: c.OX, OY: c.OY}
	vi := newImage(s, c.Proto, im.lib())
	if m := resizeSync(s, c.Proto, vi, c.BW, c.BH, degenerateFit(c.PW, c.PH, c.CW, c.CH, c.BW, c.BH)); m != "" {
		return fmt.Sprintf("%dx%d px into %dx%d (%s): %s", c.PW, c.PH, c.BW, c.BH, c.Proto, m)
	}
	w, h := vi.CellSize()
	return checkFit(c, w, h)
}

func TestFitExhaustive(t *testing.T) {
	if harness.ReplayPath() != "" {
		t.Skip()
	}
	const sub = "fit-blocks"
	maxPx := harness.Scale(12, 20)
	maxBox := harness.Scale(8, 12)
	idx, fails := 0, 0
	for _, proto := range []string{"half", "full"} {
		for pw := 1; pw <= maxPx; pw++ {
			for ph := 1; ph <= maxPx; ph++ {
				for bw := 0; bw <= maxBox; bw++ {
					for bh := 0; bh <= maxBox; bh++ {
						idx++
						if !harness.Mine(idx) || fails > 2 {
							continue
						}
						c := FitCase{Proto: proto, PW: pw, PH: ph, CW: 1, CH: 2, BW: bw, BH: bh}
						harness.R.Eval(sub)
						cols0, rows0 := pw, ceilDiv(ph, 2)
						if cols0 > bw || rows0 > bh {
							harness.R.Nontrivial(sub, c)
							if bw*rows0 == bh*cols0 {
								harness.R.Label(sub, "equal horizontal and vertical scale factors")
							}
						}
						if msg := runFit(c); msg != "" {
							fails++
							harness.Fail(t, sub, msg, Case{Fit: &c})
						}
					}
				}
			}
		}
	}
	if fails == 0 {
		harness.R.Exhaustive(sub)
	}
}

var geoms = []geom{{1, 1}, {2, 3}, {8, 16}, {10, 20}, {7, 15}}

func TestFitProtocols(t *testing.T) {
	const sub = "fit-protocols"
	n := harness.PerShard(harness.Scale(6_000, 300_000))
	harness.Check(t, sub, n, func(rt *rapid.T) Case {
		g := rapid.SampledFrom(geoms).Draw(rt, "geom")
		c := FitCase{Proto: rapid.SampledFrom([]string{"kitty", "sixel"}).Draw(rt, "proto"), CW: g.w, CH: g.h}
		// pixel sizes around multiples of the cell size
		dim := func(label string, cell int) int {
			cells := rapid.IntRange(1, 12).Draw(rt, label+"-cells")
			off := rapid.SampledFrom([]int{0, 0, 1, -1, cell / 2}).Draw(rt, label+"-off")
			v := cells*cell + off
			if v < 1 {
				v = 1
			}
			return v
		}
		c.PW, c.PH = dim("pw", g.w), dim("ph", g.h)
		c.BW, c.BH = rapid.IntRange(0, 10).Draw(rt, "bw"), rapid.IntRange(0, 10).Draw(rt, "bh")
		c.OX, c.OY = genOrigin(rt, sub)
		cc := Case{Fit: &c}
		cols0, rows0 := ceilDiv(c.PW, c.CW), ceilDiv(c.PH, c.CH)
		if cols0 > c.BW || rows0 > c.BH {
			harness.R.Nontrivial(sub, cc)
			if c.BW*rows0 == c.BH*cols0 {
				harness.R.Label(sub, "equal horizontal and vertical scale factors")
			}
		}
		harness.R.Sample(sub, cc)
		return cc
	}, harness.Confirm(run, 2))
}

// ---------------------------------------------------------------------------
// pixels: what the block renderers put into the cells, read back from the
// reference terminal; and containment

type PixCase struct {
	Proto string `json:"proto"` // half full
	Img   Img    `json:"img"`
	BW    int    `json:"bw"`
	BH    int    `json:"bh"`
	// window inside the screen the image is drawn into
	WinCol int `json:"win_col"`
	WinRow int `json:"win_row"`
	WinW   int `json:"win_w"`
	WinH   int `json:"win_h"`
}

const transparentEnough = 50

// straight returns the non-premultiplied colour of a pixel of the built image.
func straight(img image.Image, x, y int) (r, g, b, a int, ok bool) {
	if !(image.Point{x, y}.In(img.Bounds())) {
		return 0, 0, 0, 0, false
	}
	c := color.NRGBAModel.Convert(img.At(x, y)).(color.NRGBA)
	if c.A == 0 {
		// a fully transparent pixel has no colour
		return 0, 0, 0, 0, true
	}
	return int(c.R), int(c.G), int(c.B), int(c.A), true
}

func near(a, b, tol int) bool { return a-b <= tol && b-a <= tol }

type rgb struct{ r, g, b int }

func colorOf(c refterm.Color) (rgb, bool) {
	if c.Kind != refterm.ColRGB {
		return rgb{}, false
	}
	return rgb{int(c.V >> 16 & 0xff), int(c.V >> 8 & 0xff), int(c.V & 0xff)}, true
}

// candidates lists the source pixels a destination pixel may come from.
func candidates(src image.Image, dx, dy, dw, dh int) []image.Point {
	b := src.Bounds()
	if dw == b.Dx() && dh == b.Dy() {
		return []image.Point{{dx, dy}}
	}
	x0 := dx*b.Dx()/dw - 1
	x1 := ((dx+1)*b.Dx()+dw-1)/dw + 1
	y0 := dy*b.Dy()/dh - 1
	y1 := ((dy+1)*b.Dy()+dh-1)/dh + 1
	var out []image.Point
	for y := y0; y < y1; y++ {
		for x := x0; x < x1; x++ {
			if (image.Point{x, y}).In(b) {
				out = append(out, image.Point{x, y})
			}
		}
	}
	return out
}

const marker = "·"

func runPix(c PixCase) string {
	s := session(geom{})
	if s == nil {
		return "harness: no session"
	}
	sessMu.Lock()
	defer sessMu.Unlock()
	src := c.Img.build()
	vi := newImage(s, c.Proto, c.Img.lib())
	if m := resizeSync(s, c.Proto, vi, c.BW, c.BH, false); m != "" {
		return m
	}
	w, h := vi.CellSize()
	fc := FitCase{Proto: c.Proto, PW: c.Img.W, PH: c.Img.H, CW: 1, CH: 2, BW: c.BW, BH: c.BH}
	if m := checkFit(fc, w, h); m != "" {
		return m
	}
	scaled := !(c.Img.W <= c.BW && ceilDiv(c.Img.H, 2) <= c.BH)
	// pixel size of the image the cells were made from
	dw, dh := c.Img.W, c.Img.H
	if scaled {
		dw = w
		// the scaled pixel height is 2h or 2h-1; both are tried below
	}
	root := s.Vx.Window()
	root.Clear()
	root.Fill(vaxis.Cell{Character: vaxis.Character{Grapheme: marker, Width: 1}})
	win := root.New(c.WinCol, c.WinRow, c.WinW, c.WinH)
	if p := guard(func() { vi.Draw(win) }); p != "" {
		return "Draw panicked: " + p
	}
	s.Vx.Render()
	s.Term.Lock()
	defer s.Term.Unlock()
	// the window as clipped to the screen
	wx0, wy0 := max(c.WinCol, 0), max(c.WinRow, 0)
	wx1, wy1 := min(c.WinCol+c.WinW, scrCols), min(c.WinRow+c.WinH, scrRows)
	for row := 0; row < scrRows; row++ {
		for col := 0; col < scrCols; col++ {
			cell := s.Term.Cell(row, col)
			inWin := col >= wx0 && col < wx1 && row >= wy0 && row < wy1
			ix, iy := col-c.WinCol, row-c.WinRow
			inImg := inWin && ix >= 0 && iy >= 0 && ix < w && iy < h
			if !inImg {
				if cell.G != marker {
					where := "outside the target window"
					if inWin {
						where = "inside the window but outside the image"
					}
					return fmt.Sprintf("drawing a %dx%d-cell image into the window at (%d,%d) size %dx%d changed screen cell (col %d,row %d), which is %s: it shows %q %v", w, h, c.WinCol, c.WinRow, c.WinW, c.WinH, col, row, where, cell.G, cell.Style)
				}
				continue
			}
			harness.R.Label("pixels", "cell compared")
			if m := checkCell(c, src, cell, ix, iy, dw, dh, w, h, scaled); m != "" {
				return fmt.Sprintf("image cell (%d,%d) of a %s image %dx%d px in a %dx%d box (cell size %dx%d): %s", ix, iy, c.Proto, c.Img.W, c.Img.H, c.BW, c.BH, w, h, m)
			}
		}
	}
	return ""
}

// pixelOK: does (r,g,b,a-class) match one of the candidate source pixels?
type want struct {
	transparent bool
	c           rgb
	tol         int
}

func sourceWants(src image.Image, pts []image.Point, scaled bool) []want {
	var out []want
	for _, p := range pts {
		r, g, b, a, _ := straight(src, p.X, p.Y)
		w := want{transparent: a < transparentEnough, c: rgb{r, g, b}, tol: 1}
		if scaled && a < 255 && a > 0 {
			// the scaler works on 8-bit premultiplied colours
			w.tol = 255/a + 2
			if a >= transparentEnough-2 && a <= transparentEnough+2 {
				// alpha itself is rounded: either side of the threshold
				out = append(out, want{transparent: !w.transparent, c: w.c, tol: w.tol})
			}
		}
		out = append(out, w)
	}
	return out
}

func matches(ws []want, transparent bool, got rgb) bool {
	for _, w := range ws {
		if w.transparent != transparent {
			continue
		}
		if transparent || (near(got.r, w.c.r, w.tol) && near(got.g, w.c.g, w.tol) && near(got.b, w.c.b, w.tol)) {
			return true
		}
	}
	return false
}

func checkCell(c PixCase, src image.Image, cell refterm.Cell, ix, iy, dw, dh, w, h int, scaled bool) string {
	fg, hasFg := colorOf(cell.Style.Fg)
	bg, hasBg := colorOf(cell.Style.Bg)
	heights := []int{dh}
	if scaled {
		heights = []int{2 * h, 2*h - 1}
	}
	var lastErr string
	for _, ph := range heights {
		if ph < 1 {
			continue
		}
		var top, bot []want
		top = sourceWants(src, candidates(src, ix, 2*iy, dw, ph), scaled)
		if 2*iy+1 < ph {
			bot = sourceWants(src, candidates(src, ix, 2*iy+1, dw, ph), scaled)
		}
		var err string
		switch c.Proto {
		case "half":
			err = checkHalf(cell, top, bot, fg, hasFg, bg, hasBg)
		case "full":
			err = checkFull(cell, src, ix, iy, dw, ph, scaled, bg, hasBg)
		}
		if err == "" {
			return ""
		}
		lastErr = err
	}
	return lastErr
}

func describe(ws []want) string {
	var parts []string
	for _, w := range ws {
		if w.transparent {
			parts = append(parts, "transparent")
		} else {
			parts = append(parts, fmt.Sprintf("#%02x%02x%02x", w.c.r, w.c.g, w.c.b))
		}
	}
	if len(parts) > 6 {
		parts = append(parts[:6], "...")
	}
	return strings.Join(parts, "|")
}

func checkHalf(cell refterm.Cell, top, bot []want, fg rgb, hasFg bool, bg rgb, hasBg bool) string {
	// what the cell shows in its upper and lower half
	var upT, loT bool // transparent (default colour)
	var up, lo rgb
	switch cell.G {
	case "", " ":
		upT, loT = !hasBg, !hasBg
		up, lo = bg, bg
	case "▀":
		upT, up = !hasFg, fg
		loT, lo = !hasBg, bg
	case "▄":
		loT, lo = !hasFg, fg
		upT, up = !hasBg, bg
	default:
		return fmt.Sprintf("shows %q", cell.G)
	}
	if len(bot) == 0 {
		// no source pixel under the lower half
		bot = []want{{transparent: true}}
	}
	if !matches(top, upT, up) {
		return fmt.Sprintf("upper half shows %s, the source pixel is %s (cell %q %v)", show(upT, up), describe(top), cell.G, cell.Style)
	}
	if !matches(bot, loT, lo) {
		return fmt.Sprintf("lower half shows %s, the source pixel is %s (cell %q %v)", show(loT, lo), describe(bot), cell.G, cell.Style)
	}
	return ""
}

func show(t bool, c rgb) string {
	if t {
		return "the default colour"
	}
	return fmt.Sprintf("#%02x%02x%02x", c.r, c.g, c.b)
}

// checkFull: a space whose background is the average of the pixels the cell
// covers.
func checkFull(cell refterm.Cell, src image.Image, ix, iy, dw, ph int, scaled bool, bg rgb, hasBg bool) string {
	if cell.G != "" && cell.G != " " {
		return fmt.Sprintf("shows %q, want a blank", cell.G)
	}
	tops := candidates(src, ix, 2*iy, dw, ph)
	var bots []image.Point
	if 2*iy+1 < ph {
		bots = candidates(src, ix, 2*iy+1, dw, ph)
	}
	var wants []string
	for _, tp := range tops {
		tr, tg, tb, ta, _ := straight(src, tp.X, tp.Y)
		// r, g, b, a of the average and the smaller of the two alphas
		pairs := [][5]int{}
		if len(bots) == 0 {
			// the cell covers one pixel only
			pairs = append(pairs, [5]int{tr, tg, tb, ta, ta})
		}
		for _, bp := range bots {
			br, bgc, bb, ba, _ := straight(src, bp.X, bp.Y)
			pairs = append(pairs, [5]int{(tr + br) / 2, (tg + bgc) / 2, (tb + bb) / 2, (ta + ba) / 2, min(ta, ba)})
		}
		for _, p := range pairs {
			tol := 2
			if scaled && p[4] < 255 {
				// the scaler's 8-bit premultiplied colours lose up to
				// 255/alpha per channel of the more transparent pixel
				tol = 255/max(p[4], 1) + 3
			}
			transparent := p[3] < transparentEnough
			edge := p[3] >= transparentEnough-2 && p[3] <= transparentEnough+2
			if (transparent || edge) && !hasBg {
				return ""
			}
			if (!transparent || edge) && hasBg && near(bg.r, p[0], tol) && near(bg.g, p[1], tol) && near(bg.b, p[2], tol) {
				return ""
			}
			if transparent {
				wants = append(wants, "default")
			} else {
				wants = append(wants, fmt.Sprintf("#%02x%02x%02x", p[0], p[1], p[2]))
			}
		}
	}
	if len(wants) > 6 {
		wants = append(wants[:6], "...")
	}
	return fmt.Sprintf("background is %s, the average of the covered source pixels is %s", show(!hasBg, bg), strings.Join(wants, "|"))
}

// genOrigin: two thirds of the images start at (0,0); the others have the
// bounds of a sub-image (positive or negative origin).
func genOrigin(rt *rapid.T, sub string) (int, int) {
	if rapid.IntRange(0, 2).Draw(rt, "sub-image") != 1 {
		return 0, 0
	}
	harness.R.Label(sub, "image bounds do not start at (0,0)")
	o := []int{-5, 0, 1, 3, 9, -1, 40}
	return rapid.SampledFrom(o).Draw(rt, "ox"), rapid.SampledFrom(o).Draw(rt, "oy")
}

func genImg(rt *rapid.T, sub string, maxW, maxH int) Img {
	im := Img{W: rapid.IntRange(1, maxW).Draw(rt, "iw"), H: rapid.IntRange(1, maxH).Draw(rt, "ih")}
	if rapid.Bool().Draw(rt, "premultiplied") {
		im.Model = "rgba"
	}
	im.OX, im.OY = genOrigin(rt, sub)
	alphas := []int{0, 1, 49, 50, 51, 128, 254, 255, 255, 255}
	for i := 0; i < im.W*im.H; i++ {
		a := rapid.SampledFrom(alphas).Draw(rt, "a")
		if rapid.IntRange(0, 4).Draw(rt, "any-alpha") == 2 {
			a = rapid.IntRange(0, 255).Draw(rt, "alpha")
		}
		im.Pix = append(im.Pix, Px{
			uint8(rapid.SampledFrom([]int{0, 1, 17, 127, 128, 200, 254, 255}).Draw(rt, "r")),
			uint8(rapid.SampledFrom([]int{0, 60, 128, 255}).Draw(rt, "g")),
			uint8(rapid.SampledFrom([]int{0, 33, 255}).Draw(rt, "b")),
			uint8(a),
		})
	}
	return im
}

func TestPixels(t *testing.T) {
	const sub = "pixels"
	n := harness.PerShard(harness.Scale(8_000, 400_000))
	harness.Check(t, sub, n, func(rt *rapid.T) Case {
		c := PixCase{Proto: rapid.SampledFrom([]string{"half", "full"}).Draw(rt, "proto")}
		c.Img = genImg(rt, sub, 8, 10)
		if rapid.IntRange(0, 2).Draw(rt, "fits") != 1 {
			c.BW, c.BH = rapid.IntRange(c.Img.W, 10).Draw(rt, "bw"), rapid.IntRange(ceilDiv(c.Img.H, 2), 8).Draw(rt, "bh")
		} else {
			c.BW, c.BH = rapid.IntRange(0, 8).Draw(rt, "bw2"), rapid.IntRange(0, 6).Draw(rt, "bh2")
		}
		c.WinCol, c.WinRow = rapid.IntRange(0, 14).Draw(rt, "wc"), rapid.IntRange(0, 8).Draw(rt, "wr")
		switch rapid.IntRange(0, 3).Draw(rt, "winsize") {
		case 0:
			// smaller than the image may be
			c.WinW, c.WinH = rapid.IntRange(0, 8).Draw(rt, "ww"), rapid.IntRange(0, 5).Draw(rt, "wh")
		default:
			c.WinW, c.WinH = 10, 8
		}
		cc := Case{Pix: &c}
		scaled := !(c.Img.W <= c.BW && ceilDiv(c.Img.H, 2) <= c.BH)
		partial := false
		for _, p := range c.Img.Pix {
			if p[3] > 0 && p[3] < 255 {
				partial = true
			}
		}
		if scaled || partial || c.Img.H%2 == 1 {
			harness.R.Nontrivial(sub, cc)
		}
		if scaled {
			harness.R.Label(sub, "scaled")
		} else {
			harness.R.Label(sub, "unscaled")
		}
		harness.R.Sample(sub, cc)
		return cc
	}, harness.Confirm(run, 2))
}

// ---------------------------------------------------------------------------
// placements: kitty and sixel frame histories

type PlOp struct {
	K string `json:"k"` // frame refresh
	// images drawn in this frame after a Clear: index, col, row
	Draw [][3]int `json:"draw,omitempty"`
	// Resize image [0] to box [1]x[2] before drawing
	Resize [][3]int `json:"resize,omitempty"`
	// NoClear: the application draws on top of the previous frame's model
	NoClear bool `json:"noclear,omitempty"`
}

type PlCase struct {
	Proto string   `json:"proto"` // kitty sixel
	CW    int      `json:"cw"`
	CH    int      `json:"ch"`
	Imgs  []Img    `json:"imgs"`
	Boxes [][2]int `json:"boxes"` // initial Resize box per image
	Ops   []PlOp   `json:"ops"`
}

var (
	apcRe   = regexp.MustCompile(`\x1b_G([^;\x1b]*)(?:;([^\x1b]*))?\x1b\\`)
	sixelRe = regexp.MustCompile(`\x1bP[0-9;]*q([^\x1b]*)\x1b\\`)
	cupRe   = regexp.MustCompile(`\x1b\[([0-9]+);([0-9]+)H$`)
	cupAny  = regexp.MustCompile(`\x1b\[([0-9]+);([0-9]+)H`)
)

// sixelExtent returns the pixel size of what a sixel body paints.
func sixelExtent(body []byte) (w, h int) {
	x, band := 0, 0
	for i := 0; i < len(body); i++ {
		c := body[i]
		rep := 1
		switch {
		case c == '"' || c == '#':
			// raster attributes / colour: skip the numeric parameters
			for i+1 < len(body) && (body[i+1] == ';' || body[i+1] >= '0' && body[i+1] <= '9') {
				i++
			}
			continue
		case c == '!':
			rep = 0
			for i+1 < len(body) && body[i+1] >= '0' && body[i+1] <= '9' {
				i++
				rep = rep*10 + int(body[i]-'0')
			}
			if i+1 >= len(body) {
				return
			}
			i++
			c = body[i]
		case c == '$':
			x = 0
			continue
		case c == '-':
			x = 0
			band++
			continue
		}
		if c < 0x3f || c > 0x7e {
			continue
		}
		bits := int(c - 0x3f)
		if bits != 0 {
			if x+rep > w {
				w = x + rep
			}
			top := 0
			for b := 0; b < 6; b++ {
				if bits&(1<<b) != 0 {
					top = b + 1
				}
			}
			if band*6+top > h {
				h = band*6 + top
			}
		}
		x += rep
	}
	return
}

type placementKey struct {
	id       int
	col, row int
}

func parseKV(s string) map[string]string {
	m := map[string]string{}
	for _, kv := range strings.Split(s, ",") {
		if i := strings.IndexByte(kv, '='); i > 0 {
			m[kv[:i]] = kv[i+1:]
		}
	}
	return m
}

func runPlacements(c PlCase) string {
	s := session(geom{c.CW, c.CH})
	if s == nil {
		return "harness: no session"
	}
	sessMu.Lock()
	defer sessMu.Unlock()
	// start from an empty terminal-side state
	s.Vx.Window().Clear()
	s.Vx.Refresh()
	s.TTY.TakeOut()

	type imgState struct {
		vi   vaxis.Image
		w, h int // cell size
		id   int // kitty image id as seen on the wire (0 = not yet known)
	}
	imgs := make([]*imgState, len(c.Imgs))
	for i := range c.Imgs {
		if degenerateFit(c.Imgs[i].W, c.Imgs[i].H, c.CW, c.CH, c.Boxes[i][0], c.Boxes[i][1]) {
			harness.R.Label("placements", "an image is scaled to nothing (skipped)")
			return ""
		}
	}
	for _, op := range c.Ops {
		for _, r := range op.Resize {
			if degenerateFit(c.Imgs[r[0]].W, c.Imgs[r[0]].H, c.CW, c.CH, r[1], r[2]) {
				harness.R.Label("placements", "an image is scaled to nothing (skipped)")
				return ""
			}
		}
	}
	for i := range c.Imgs {
		vi := newImage(s, c.Proto, c.Imgs[i].lib())
		if m := resizeSync(s, c.Proto, vi, c.Boxes[i][0], c.Boxes[i][1], degenerateFit(c.Imgs[i].W, c.Imgs[i].H, c.CW, c.CH, c.Boxes[i][0], c.Boxes[i][1])); m != "" {
			return m
		}
		w, h := vi.CellSize()
		imgs[i] = &imgState{vi: vi, w: w, h: h}
		fc := FitCase{Proto: c.Proto, PW: c.Imgs[i].W, PH: c.Imgs[i].H, CW: c.CW, CH: c.CH, BW: c.Boxes[i][0], BH: c.Boxes[i][1]}
		if m := checkFit(fc, w, h); m != "" {
			return m
		}
	}
	defer func() {
		for _, im := range imgs {
			im.vi.Destroy()
		}
		s.Vx.Window().Clear()
		s.Vx.Refresh()
		s.TTY.TakeOut()
	}()

	// terminal-side model: live placements and transmitted images
	type live struct{ img, col, row, w, h int }
	termLive := map[placementKey]live{} // kitty only
	transmitted := map[int][]byte{}     // kitty image id -> base64 so far
	complete := map[int]bool{}
	var lastDrawn []live // what the application drew in the previous frame
	var drawn []live

	for oi, op := range c.Ops {
		for _, r := range op.Resize {
			im := imgs[r[0]]
			if m := resizeSync(s, c.Proto, im.vi, r[1], r[2], degenerateFit(c.Imgs[r[0]].W, c.Imgs[r[0]].H, c.CW, c.CH, r[1], r[2])); m != "" {
				return m
			}
			im.w, im.h = im.vi.CellSize()
		}
		root := s.Vx.Window()
		if !op.NoClear {
			root.Clear()
			drawn = nil
		}
		for _, d := range op.Draw {
			im := imgs[d[0]]
			win := root.New(d[1], d[2], max(im.w, 1), max(im.h, 1))
			if p := guard(func() { im.vi.Draw(win) }); p != "" {
				return fmt.Sprintf("op %d: Draw panicked: %s", oi, p)
			}
			if im.w > 0 && im.h > 0 && d[1]+im.w <= scrCols && d[2]+im.h <= scrRows {
				drawn = append(drawn, live{d[0], d[1], d[2], im.w, im.h})
			} else {
				harness.R.Label("placements", "image does not fit the window (may be skipped)")
				return "" // what happens then is the containment sub-check's business
			}
		}
		s.TTY.TakeOut()
		if op.K == "refresh" {
			s.Vx.Refresh()
		} else {
			s.Vx.Render()
		}
		out := s.TTY.TakeOut()

		same := func(a, b live) bool { return a == b }
		inList := func(l []live, x live) bool {
			for _, y := range l {
				if same(x, y) {
					return true
				}
			}
			return false
		}

		switch c.Proto {
		case "kitty":
			// replay the APC stream
			placedNow := map[placementKey]int{}
			pos := 0
			curRow, curCol := -1, -1
			for _, m := range apcRe.FindAllSubmatchIndex(out, -1) {
				keys := parseKV(string(out[m[2]:m[3]]))
				payload := ""
				if m[4] >= 0 {
					payload = string(out[m[4]:m[5]])
				}
				before := out[pos:m[0]]
				pos = m[1]
				if cm := cupAny.FindAllSubmatch(before, -1); len(cm) > 0 {
					curRow, _ = strconv.Atoi(string(cm[len(cm)-1][1]))
					curCol, _ = strconv.Atoi(string(cm[len(cm)-1][2]))
				} else if len(before) > 0 {
					// something else moved the cursor
					curRow, curCol = -1, -1
				}
				id, _ := strconv.Atoi(keys["i"])
				switch keys["a"] {
				case "", "t", "T":
					if complete[id] {
						// a new transmission replaces the old data
						transmitted[id] = nil
						complete[id] = false
					}
					transmitted[id] = append(transmitted[id], payload...)
					if keys["m"] != "1" {
						complete[id] = true
					}
				case "p":
					// where is the cursor? the placement is preceded by a CUP
					if curRow < 0 {
						return fmt.Sprintf("op %d: a kitty placement without a preceding cursor position: %q", oi, before)
					}
					row, col := curRow, curCol
					if !complete[id] {
						return fmt.Sprintf("op %d: image %d placed before it was completely transmitted", oi, id)
					}
					pid, _ := strconv.Atoi(keys["p"])
					k := placementKey{id, pid >> 16, pid & 0xffff}
					if k.col != col-1 || k.row != row-1 {
						return fmt.Sprintf("op %d: placement id encodes cell (%d,%d) but the cursor is at (%d,%d)", oi, k.col, k.row, col-1, row-1)
					}
					// pixel size of what was transmitted
					raw, err := base64.StdEncoding.DecodeString(string(transmitted[id]))
					if err != nil {
						return fmt.Sprintf("op %d: image %d: transmitted data is not base64: %v", oi, id, err)
					}
					cfg, err := png.DecodeConfig(bytes.NewReader(raw))
					if err != nil {
						return fmt.Sprintf("op %d: image %d: transmitted data is not a PNG: %v", oi, id, err)
					}
					placedNow[k]++
					termLive[k] = live{img: id, col: k.col, row: k.row, w: ceilDiv(cfg.Width, c.CW), h: ceilDiv(cfg.Height, c.CH)}
				case "d":
					pid, _ := strconv.Atoi(keys["p"])
					k := placementKey{id, pid >> 16, pid & 0xffff}
					if keys["d"] == "I" || keys["d"] == "i" && keys["p"] == "" {
						for kk := range termLive {
							if kk.id == id {
								delete(termLive, kk)
							}
						}
					} else {
						delete(termLive, k)
					}
				}
			}
			// every drawn image is live at its cell, with the size the
			// library reported; nothing else is
			if len(termLive) != countDistinct(drawn) {
				return fmt.Sprintf("op %d (%s): the terminal holds %d placements %v, the application drew %v", oi, op.K, len(termLive), termLive, drawn)
			}
			for _, d := range drawn {
				found := false
				for k, l := range termLive {
					if k.col == d.col && k.row == d.row {
						if l.w != d.w || l.h != d.h {
							return fmt.Sprintf("op %d: the image placed at (%d,%d) covers %dx%d cells, CellSize said %dx%d", oi, d.col, d.row, l.w, l.h, d.w, d.h)
						}
						if imgs[d.img].id == 0 {
							imgs[d.img].id = k.id
						}
						if imgs[d.img].id == k.id {
							found = true
						}
					}
				}
				if !found {
					return fmt.Sprintf("op %d (%s): image %d drawn at (%d,%d) is not placed in the terminal: %v", oi, op.K, d.img, d.col, d.row, termLive)
				}
			}
			// unchanged placements are not sent again; on refresh all are
			for k, n := range placedNow {
				was := false
				for _, l := range lastDrawn {
					if l.col == k.col && l.row == k.row && imgs[l.img].id == k.id && inList(drawn, l) {
						was = true
					}
				}
				if n > 1 {
					return fmt.Sprintf("op %d (%s): placement %v sent %d times in one frame", oi, op.K, k, n)
				}
				if was && op.K != "refresh" {
					return fmt.Sprintf("op %d (render): placement %v was unchanged but sent again", oi, k)
				}
			}
			if op.K == "refresh" {
				for _, d := range drawn {
					k := placementKey{imgs[d.img].id, d.col, d.row}
					if placedNow[k] == 0 {
						return fmt.Sprintf("op %d (refresh): placement %v was not sent again", oi, k)
					}
				}
			}
		case "sixel":
			type sx struct{ col, row, w, h int }
			var sent []sx
			pos := 0
			for _, m := range sixelRe.FindAllSubmatchIndex(out, -1) {
				before := out[pos:m[0]]
				pos = m[1]
				cm := cupRe.FindSubmatch(before)
				if cm == nil {
					return fmt.Sprintf("op %d: sixel data without a preceding cursor position", oi)
				}
				row, _ := strconv.Atoi(string(cm[1]))
				col, _ := strconv.Atoi(string(cm[2]))
				pw, ph := sixelExtent(out[m[2]:m[3]])
				sent = append(sent, sx{col - 1, row - 1, ceilDiv(pw, c.CW), ceilDiv(ph, c.CH)})
			}
			for _, d := range drawn {
				unchanged := inList(lastDrawn, d) && op.K != "refresh"
				n := 0
				for _, x := range sent {
					if x.col == d.col && x.row == d.row {
						n++
						if x.w != d.w || x.h != d.h {
							return fmt.Sprintf("op %d: the sixel image sent at (%d,%d) covers %dx%d cells, CellSize said %dx%d", oi, d.col, d.row, x.w, x.h, d.w, d.h)
						}
					}
				}
				dup := 0
				for _, y := range drawn {
					if y.col == d.col && y.row == d.row {
						dup++
					}
				}
				switch {
				case unchanged && n != 0:
					return fmt.Sprintf("op %d (render): the sixel image at (%d,%d) was unchanged but sent again", oi, d.col, d.row)
				case !unchanged && n == 0:
					return fmt.Sprintf("op %d (%s): the sixel image drawn at (%d,%d) was not sent", oi, op.K, d.col, d.row)
				case n > dup:
					return fmt.Sprintf("op %d (%s): the sixel image at (%d,%d) was sent %d times", oi, op.K, d.col, d.row, n)
				}
			}
			for _, x := range sent {
				ok := false
				for _, d := range drawn {
					if x.col == d.col && x.row == d.row {
						ok = true
					}
				}
				if !ok {
					return fmt.Sprintf("op %d: sixel data sent at (%d,%d) where nothing was drawn", oi, x.col, x.row)
				}
			}
		}
		lastDrawn = append([]live(nil), drawn...)
	}
	return ""
}

func countDistinct[T comparable](l []T) int {
	m := map[T]bool{}
	for _, x := range l {
		m[x] = true
	}
	return len(m)
}

func TestPlacements(t *testing.T) {
	const sub = "placements"
	n := harness.PerShard(harness.Scale(3_000, 150_000))
	harness.Check(t, sub, n, func(rt *rapid.T) Case {
		g := rapid.SampledFrom([]geom{{2, 3}, {8, 16}, {1, 1}}).Draw(rt, "geom")
		c := PlCase{Proto: rapid.SampledFrom([]string{"kitty", "kitty", "sixel"}).Draw(rt, "proto"), CW: g.w, CH: g.h}
		ni := rapid.IntRange(1, 3).Draw(rt, "nimgs")
		for i := 0; i < ni; i++ {
			im := Img{W: rapid.IntRange(1, 4*g.w).Draw(rt, "iw"), H: rapid.IntRange(1, 3*g.h).Draw(rt, "ih")}
			im.OX, im.OY = genOrigin(rt, sub)
			if c.Proto == "sixel" {
				// few colours
				for j := 0; j < im.W*im.H; j++ {
					im.Pix = append(im.Pix, Px{uint8(255 * (j % 2)), 0, uint8(255 * (i % 2)), 255})
				}
			}
			c.Imgs = append(c.Imgs, im)
			c.Boxes = append(c.Boxes, [2]int{rapid.IntRange(1, 5).Draw(rt, "bw"), rapid.IntRange(1, 4).Draw(rt, "bh")})
		}
		k := rapid.IntRange(1, 8).Draw(rt, "nops")
		kept, dropped := false, false
		var prev [][3]int
		for i := 0; i < k; i++ {
			op := PlOp{K: rapid.SampledFrom([]string{"frame", "frame", "frame", "refresh"}).Draw(rt, "k")}
			switch rapid.IntRange(0, 4).Draw(rt, "what") {
			case 0, 1:
				// same as before
				op.Draw = append(op.Draw, prev...)
				if len(prev) > 0 {
					kept = true
				}
			case 2:
				// nothing
				if len(prev) > 0 {
					dropped = true
				}
			default:
				nd := rapid.IntRange(1, ni).Draw(rt, "ndraw")
				perm := rapid.Permutation(intsTo(ni)).Draw(rt, "which")
				used := map[[2]int]bool{}
				for j := 0; j < nd; j++ {
					col, row := rapid.IntRange(0, 15).Draw(rt, "col"), rapid.IntRange(0, 7).Draw(rt, "row")
					if used[[2]int{col, row}] {
						// two images at one cell cannot be told apart on the wire
						continue
					}
					used[[2]int{col, row}] = true
					op.Draw = append(op.Draw, [3]int{perm[j], col, row})
				}
			}
			if rapid.IntRange(0, 7).Draw(rt, "resize") == 3 {
				op.Resize = append(op.Resize, [3]int{rapid.IntRange(0, ni-1).Draw(rt, "ri"), rapid.IntRange(1, 5).Draw(rt, "rbw"), rapid.IntRange(1, 4).Draw(rt, "rbh")})
			}
			prev = op.Draw
			c.Ops = append(c.Ops, op)
		}
		cc := Case{Pl: &c}
		if kept && dropped {
			harness.R.Nontrivial(sub, cc)
		}
		harness.R.Label(sub, c.Proto)
		harness.R.Sample(sub, cc)
		return cc
	}, harness.Confirm(run, 2))
}

func intsTo(n int) []int {
	var l []int
	for i := 0; i < n; i++ {
		l = append(l, i)
	}
	return l
}

// ---------------------------------------------------------------------------
// contain: kitty/sixel images drawn into windows that may be too small

type ContainCase struct {
	Proto string `json:"proto"`
	CW    int    `json:"cw"`
	CH    int    `json:"ch"`
	Img   Img    `json:"img"`
	BW    int    `json:"bw"`
	BH    int    `json:"bh"`
	// target window
	Col int `json:"col"`
	Row int `json:"row"`
	W   int `json:"w"`
	H   int `json:"h"`
}

func runContain(c ContainCase) string {
	s := session(geom{c.CW, c.CH})
	if s == nil {
		return "harness: no session"
	}
	sessMu.Lock()
	defer sessMu.Unlock()
	s.Vx.Window().Clear()
	s.Vx.Refresh()
	vi := newImage(s, c.Proto, c.Img.lib())
	defer func() {
		vi.Destroy()
		s.Vx.Window().Clear()
		s.Vx.Refresh()
		s.TTY.TakeOut()
	}()
	if degenerateFit(c.Img.W, c.Img.H, c.CW, c.CH, c.BW, c.BH) {
		harness.R.Label("contain", "scaled to nothing (skipped)")
		return ""
	}
	if m := resizeSync(s, c.Proto, vi, c.BW, c.BH, false); m != "" {
		return m
	}
	root := s.Vx.Window()
	root.Clear()
	win := root.New(c.Col, c.Row, c.W, c.H)
	ww, wh := win.Size()
	if p := guard(func() { vi.Draw(win) }); p != "" {
		return "Draw panicked: " + p
	}
	s.TTY.TakeOut()
	s.Vx.Render()
	out := s.TTY.TakeOut()
	// size in cells of what reached the terminal
	var pw, ph int
	placed := false
	switch c.Proto {
	case "kitty":
		var data []byte
		for _, m := range apcRe.FindAllSubmatch(out, -1) {
			keys := parseKV(string(m[1]))
			switch keys["a"] {
			case "", "t", "T":
				data = append(data, m[2]...)
			case "p":
				placed = true
			}
		}
		if placed {
			raw, err := base64.StdEncoding.DecodeString(string(data))
			if err != nil {
				return "transmitted data is not base64"
			}
			cfg, err := png.DecodeConfig(bytes.NewReader(raw))
			if err != nil {
				return fmt.Sprintf("a placement was sent for an image that was never (completely) transmitted: %v", err)
			}
			pw, ph = cfg.Width, cfg.Height
		}
	case "sixel":
		if m := sixelRe.FindSubmatch(out); m != nil {
			placed = true
			pw, ph = sixelExtent(m[1])
		}
	}
	if !placed {
		harness.R.Label("contain", "not drawn")
		return ""
	}
	cw, ch := ceilDiv(pw, c.CW), ceilDiv(ph, c.CH)
	if cw > ww || ch > wh {
		return fmt.Sprintf("a %s image of %dx%d px (%dx%d cells of %dx%d px) was placed into a window of %dx%d cells: it covers cells outside the window", c.Proto, pw, ph, cw, ch, c.CW, c.CH, ww, wh)
	}
	harness.R.Label("contain", "drawn inside the window")
	return ""
}

func TestContain(t *testing.T) {
	const sub = "contain"
	n := harness.PerShard(harness.Scale(3_000, 150_000))
	harness.Check(t, sub, n, func(rt *rapid.T) Case {
		g := rapid.SampledFrom([]geom{{2, 3}, {8, 16}, {1, 1}}).Draw(rt, "geom")
		c := ContainCase{Proto: rapid.SampledFrom([]string{"kitty", "sixel"}).Draw(rt, "proto"), CW: g.w, CH: g.h}
		c.Img = Img{W: rapid.IntRange(1, 6*g.w).Draw(rt, "iw"), H: rapid.IntRange(1, 5*g.h).Draw(rt, "ih")}
		c.Img.OX, c.Img.OY = genOrigin(rt, sub)
		c.BW, c.BH = rapid.IntRange(1, 8).Draw(rt, "bw"), rapid.IntRange(1, 6).Draw(rt, "bh")
		c.Col, c.Row = rapid.IntRange(0, 20).Draw(rt, "col"), rapid.IntRange(0, 10).Draw(rt, "row")
		c.W, c.H = rapid.IntRange(0, 8).Draw(rt, "w"), rapid.IntRange(0, 6).Draw(rt, "h")
		cc := Case{Contain: &c}
		cols := min(ceilDiv(c.Img.W, g.w), c.BW)
		rows := min(ceilDiv(c.Img.H, g.h), c.BH)
		if cols > c.W || rows > c.H || c.Col+cols > scrCols || c.Row+rows > scrRows {
			harness.R.Nontrivial(sub, cc)
		}
		harness.R.Sample(sub, cc)
		return cc
	}, harness.Confirm(run, 2))
}

// ---------------------------------------------------------------------------

type Case struct {
	Fit     *FitCase     `json:"fit,omitempty"`
	Pix     *PixCase     `json:"pix,omitempty"`
	Pl      *PlCase      `json:"pl,omitempty"`
	Contain *ContainCase `json:"contain,omitempty"`
}

func run(c Case) string {
	switch {
	case c.Fit != nil:
		return runFit(*c.Fit)
	case c.Pix != nil:
		return runPix(*c.Pix)
	case c.Pl != nil:
		return runPlacements(*c.Pl)
	case c.Contain != nil:
		return runContain(*c.Contain)
	}
	return ""
}

func TestReplay(t *testing.T) {
	r := harness.Decode(run)
	harness.ReplayAll(t, map[string]harness.Runner{"fit-blocks": r, "fit-protocols": r, "pixels": r, "placements": r, "contain": r})
}
